"""Reference satisfaction relation  beta |= phi  as written in sphinx/islaspec.rst ("Semantics"),
on closed reference trees (mc.ref.reftree).  Returns True, False or EITHER.

Formula AST (nested tuples; own, independent of isla.language):
  ("forall"|"exists", T, var, mexpr|None, in_var, body)      tree quantifiers
  ("forall_int"|"exists_int", var, body)                     numeric quantifiers
  ("not", f)  ("and", f, g, ...)  ("or", f, g, ...)
  ("smt", sexpr)                        sexpr as in mc.ref.smt
  ("pred", name, extra_tuple, var_a, var_b)   structural predicate; extra = () | (n,) | (op, nt)
  ("count", in_var, needle, ("s", "3") | ("v", name))
  ("true",) ("false",)
mexpr: tuple of elements ("t", text) | ("nt", X) | ("b", X, name) | ("opt", (elements...))
"""
import itertools

from . import refpred, smt
from .refpred import EITHER
from .reftree import is_nt, paths, tstr, at


class Ambiguous(Exception):
    pass


# ------------------------------------------------------------------ three-valued connectives

def t_not(a):
    return EITHER if a is EITHER else (not a)


def t_and(vals):
    res = True
    for v in vals:
        if v is False:
            return False
        if v is EITHER:
            res = EITHER
    return res


def t_or(vals):
    res = False
    for v in vals:
        if v is True:
            return True
        if v is EITHER:
            res = EITHER
    return res


# ------------------------------------------------------------------ match expressions

def flatten_mexpr(mexpr):
    """All item sequences obtained by keeping/dropping each optional.
    item: ("c", ch) | ("n", X, name|None)"""
    opts = [i for i, e in enumerate(mexpr) if e[0] == "opt"]
    for mask in itertools.product((False, True), repeat=len(opts)):
        keep = dict(zip(opts, mask))
        items = []

        def add(elems):
            for e in elems:
                if e[0] == "t":
                    items.extend(("c", ch) for ch in e[1])
                elif e[0] == "nt":
                    items.append(("n", e[1], None))
                elif e[0] == "b":
                    items.append(("n", e[1], e[2]))

        for i, e in enumerate(mexpr):
            if e[0] == "opt":
                if keep[i]:
                    add(e[1])
            else:
                add([e])
        yield tuple(items)


def _derivations(cg, T, items):
    """All trees (label, children|None) rooted in T whose frontier (open nonterminal leaves and
    terminal leaves, char-wise) is exactly items.  Returns list of (tree, uses_eps)."""
    n = len(items)
    memo = {}
    active = set()

    def der(X, i, j):
        key = (X, i, j)
        if key in memo:
            return memo[key]
        if key in active:
            return []
        active.add(key)
        res = []
        if j == i + 1 and items[i][0] == "n" and items[i][1] == X:
            res.append(((X, None), False))
        for alt in cg[X]:
            if not alt:
                if i == j:
                    res.append(((X, (("", ()),)), True))
                continue
            for kids, eps in seq(alt, 0, i, j):
                res.append(((X, tuple(kids)), eps))
        active.discard(key)
        memo[key] = res
        return res

    def seq(alt, k, i, j):
        """ways for alt[k:] to derive items[i:j]: list of (children list, uses_eps)"""
        if k == len(alt):
            return [([], False)] if i == j else []
        s = alt[k]
        out = []
        if not is_nt(s):
            L = len(s)
            if i + L <= j and all(items[i + d] == ("c", s[d]) for d in range(L)):
                for rest, eps in seq(alt, k + 1, i + L, j):
                    out.append(([(s, ())] + rest, eps))
            return out
        for m in range(i, j + 1):
            heads = der(s, i, m)
            if not heads:
                continue
            tails = seq(alt, k + 1, m, j)
            for (h, e1) in heads:
                for (tl, e2) in tails:
                    out.append(([h] + tl, e1 or e2))
        return out

    return der(T, 0, n)


def mexpr_trees(cg, T, mexpr):
    """[(tree, P, uses_eps)] with P {name: path}.  Raises Ambiguous if one flattening of the
    optionals has more than one derivation (the documentation and the code disagree there)."""
    out = []
    for items in flatten_mexpr(mexpr):
        ders = _derivations(cg, T, items)
        # drop the degenerate derivation "T is itself the single open leaf" only if a real one exists
        if len(ders) > 1:
            raise Ambiguous(items)
        for tree, eps in ders:
            names = [it[2] for it in items if it[0] == "n"]
            leaves = [p for p, st in paths(tree) if st[1] is None]
            assert len(names) == len(leaves)
            P = {nm: p for nm, p in zip(names, leaves) if nm is not None}
            out.append((tree, P, eps))
    return out


def match(t, t2, P, base=()):
    """The specification's match(t, t', P): None for bottom, else {var: (path, subtree)} with
    paths relative to t prefixed by base."""
    if t[0] != t2[0]:
        return None
    n2 = len(t2[1] or ())
    n1 = len(t[1] or ())
    if n2 > 0 and n1 != n2:
        return None
    for v, p in P.items():
        if p == () and len(P) == 1:
            return {v: (base, t)}
    res = {}
    if n2 == 0:
        # leaf of the match tree: matches (bound root handled above)
        for v, p in P.items():
            if p == ():
                res[v] = (base, t)
        return res
    for i in range(n1):
        Pi = {v: p[1:] for v, p in P.items() if p and p[0] == i}
        m = match(t[1][i], t2[1][i], Pi, base + (i,))
        if m is None:
            return None
        res.update(m)
    return res


# ------------------------------------------------------------------ evaluation

class Ctx:
    def __init__(self, cg, root):
        self.cg = cg
        self.root = root
        self.idx = refpred.prepost(root)
        self.mcache = {}
        self.size = sum(1 for _ in paths(root))

    def mtrees(self, T, mexpr):
        key = (T, mexpr)
        if key not in self.mcache:
            try:
                self.mcache[key] = mexpr_trees(self.cg, T, mexpr)
            except Ambiguous:
                self.mcache[key] = None
        return self.mcache[key]


def int_literals(f, acc=None):
    acc = [] if acc is None else acc
    if f[0] in ("forall", "exists"):
        int_literals(f[5], acc)
    elif f[0] in ("forall_int", "exists_int"):
        int_literals(f[2], acc)
    elif f[0] in ("not", "and", "or"):
        for g in f[1:]:
            int_literals(g, acc)
    elif f[0] == "smt":
        _lits(f[1], acc)
    elif f[0] == "count":
        if f[3][0] == "s" and f[3][1].isdigit():
            acc.append(int(f[3][1]))
    return acc


def _lits(e, acc):
    if isinstance(e, list):
        if e[0] == "i":
            acc.append(abs(e[1]))
        elif e[0] == "s":
            if e[1].isdigit():
                acc.append(int(e[1]))
        elif e[0] != "v":
            for a in e[1:]:
                _lits(a, acc)


def holds(ctx, f, env):
    """env: var -> (path|None, subtree|None, string)"""
    k = f[0]
    if k == "true":
        return True
    if k == "false":
        return False
    if k == "not":
        return t_not(holds(ctx, f[1], env))
    if k == "and":
        return t_and(holds(ctx, g, env) for g in f[1:])
    if k == "or":
        return t_or(holds(ctx, g, env) for g in f[1:])
    if k in ("forall", "exists"):
        _, T, var, mexpr, in_var, body = f
        base, sub, _s = env[in_var]
        cands = [(base + p, st) for p, st in paths(sub) if st[0] == T]
        vals = []
        if mexpr is None:
            for p, st in cands:
                e2 = dict(env)
                e2[var] = (p, st, None)
                vals.append(lambda e2=e2: holds(ctx, body, e2))
        else:
            mts = ctx.mtrees(T, mexpr)
            if mts is None:
                return EITHER
            if any(eps for _t, _P, eps in mts):
                return EITHER
            for p, st in cands:
                for mt, P, _eps in mts:
                    m = match(st, mt, P, p)
                    if m is None:
                        continue
                    e2 = dict(env)
                    e2[var] = (p, st, None)
                    for v, (vp, vst) in m.items():
                        e2[v] = (vp, vst, None)
                    vals.append(lambda e2=e2: holds(ctx, body, e2))
        gen = (v() for v in vals)
        return t_and(gen) if k == "forall" else t_or(gen)
    if k in ("forall_int", "exists_int"):
        _, var, body = f
        M = 2 + max(int_literals(body) + [ctx.size])
        vals = []
        for n in range(0, M + 1):
            e2 = dict(env)
            e2[var] = (None, None, str(n))
            vals.append(holds(ctx, body, e2))
        return t_and(vals) if k == "forall_int" else t_or(vals)
    if k == "smt":
        e = f[1]
        vals = {}
        for v in smt.variables(e):
            p, st, s = env[v]
            vals[v] = s if s is not None else tstr(st)
        for a in smt.to_int_args(e):
            # numerals only (specification); anything else: no opinion
            if isinstance(a, list) and a[0] == "v":
                if not (vals[a[1]].isdigit() and vals[a[1]].isascii()):
                    return EITHER
            elif isinstance(a, list) and a[0] == "s":
                if not (a[1].isdigit() and a[1].isascii()):
                    return EITHER
            else:
                return EITHER
        r = smt.decide(e, vals)
        if r is True or r is False:
            return r
        return EITHER
    if k == "pred":
        _, name, extra, va, vb = f
        a, b = env[va][0], env[vb][0]
        return refpred.pred(name, ctx.root, a, b, idx=ctx.idx, extra=extra)
    if k == "count":
        _, in_var, needle, num = f
        base, sub, _s = env[in_var]
        if num[0] == "s":
            target = num[1]
        else:
            target = env[num[1]][2]
        if not (target.isdigit() and target.isascii()):
            return EITHER
        n = sum(1 for _p, st in paths(sub) if st[0] == needle)
        if sub[0] == needle:
            # is the root of in_tree "inside" in_tree?  not documented
            if (n == int(target)) != (n - 1 == int(target)):
                return EITHER
        return n == int(target)
    raise KeyError(k)


def sat(cg, root, f, const="start"):
    ctx = Ctx(cg, root)
    return holds(ctx, f, {const: ((), root, None)})


def sat_ctx(ctx, f, const="start"):
    return holds(ctx, f, {const: ((), ctx.root, None)})


# ------------------------------------------------------------------ concrete (core) syntax

def mexpr_expressible(mexpr):
    """MexprLexer.g4: TEXT is (~[{[])+, so a literal '{' or '[' cannot be written at all"""
    for e in mexpr:
        if e[0] == "t" and ("{" in e[1] or "[" in e[1]):
            return False
        if e[0] == "opt" and (not mexpr_expressible(e[1]) or any(x[0] == "t" and "]" in x[1] for x in e[1])):
            return False
    return True


def mexpr_text(mexpr):
    out = []
    for e in mexpr:
        if e[0] == "t":
            out.append(e[1].replace('"', '\\"').replace("}", "}}"))
        elif e[0] == "nt":
            out.append(e[1])
        elif e[0] == "b":
            out.append("{%s %s}" % (e[1], e[2]))
        else:
            out.append("[" + mexpr_text(e[1]) + "]")
    return "".join(out)


def to_isla(f):
    k = f[0]
    if k == "true":
        return "true"
    if k == "false":
        return "false"
    if k == "not":
        return "not (" + to_isla(f[1]) + ")"
    if k in ("and", "or"):
        return "(" + f" {k} ".join(to_isla(g) for g in f[1:]) + ")"
    if k in ("forall", "exists"):
        _, T, var, mexpr, in_var, body = f
        m = "" if mexpr is None else '="%s"' % mexpr_text(mexpr)
        return f"{k} {T} {var}{m} in {in_var}: ({to_isla(body)})"
    if k in ("forall_int", "exists_int"):
        return f"{k[:-4]} int {f[1]}: ({to_isla(f[2])})"
    if k == "smt":
        return smt.to_isla(f[1])
    if k == "pred":
        _, name, extra, a, b = f
        args = []
        if name == "nth":
            args.append('"%d"' % extra[0])
        elif name == "level":
            args += ['"%s"' % extra[0], '"%s"' % extra[1]]
        return f"{name}({', '.join(args + [a, b])})"
    if k == "count":
        _, in_var, needle, num = f
        n = '"%s"' % num[1] if num[0] == "s" else num[1]
        return f'count({in_var}, "{needle}", {n})'
    raise KeyError(k)


def schema(f):
    """formula with constants blanked: used to group verdicts for the non-triviality rule"""
    k = f[0]
    if k in ("forall", "exists"):
        return (k, f[1], f[3] is not None, schema(f[5]))
    if k in ("forall_int", "exists_int"):
        return (k, schema(f[2]))
    if k in ("not", "and", "or"):
        return (k,) + tuple(schema(g) for g in f[1:])
    if k == "smt":
        return ("smt", _op_skel(f[1]))
    if k == "pred":
        return ("pred", f[1], f[2][:1])
    if k == "count":
        return ("count", f[2], f[3][0])
    return (k,)


def _op_skel(e):
    if isinstance(e, list):
        if e[0] in ("v", "s", "i"):
            return e[0]
        return (e[0],) + tuple(_op_skel(a) for a in e[1:])
    return e
