"""Regular-expression ASTs with set semantics  lang(r) ∩ Σ^{<=L}  (boring on purpose).

AST: ("re", s) | ("range", a, b) | ("star", r) | ("plus", r) | ("opt", r) | ("union", r1, ...) | ("concat", r1, ...)
"""
import functools


@functools.lru_cache(maxsize=4_000)
def lang(r, L):
    k = r[0]
    if k == "re":
        return frozenset([r[1]]) if len(r[1]) <= L else frozenset()
    if k == "range":
        return frozenset(chr(c) for c in range(ord(r[1]), ord(r[2]) + 1)) if L >= 1 else frozenset()
    if k == "opt":
        return lang(r[1], L) | {""}
    if k == "union":
        out = set()
        for x in r[1:]:
            out |= lang(x, L)
        return frozenset(out)
    if k == "concat":
        acc = {""}
        for x in r[1:]:
            lx = lang(x, L)
            acc = {a + b for a in acc for b in lx if len(a) + len(b) <= L}
            if not acc:
                break
        return frozenset(acc)
    if k in ("star", "plus"):
        base = lang(r[1], L)
        acc = {""}
        frontier = {""}
        while frontier:
            new = {a + b for a in frontier for b in base if b and len(a) + len(b) <= L} - acc
            acc |= new
            frontier = new
        if k == "plus":
            acc = {a + b for a in acc for b in base if len(a) + len(b) <= L}
        return frozenset(acc)
    raise KeyError(k)


def to_z3(r):
    import z3

    k = r[0]
    if k == "re":
        return z3.Re(r[1])
    if k == "range":
        return z3.Range(r[1], r[2])
    if k == "star":
        return z3.Star(to_z3(r[1]))
    if k == "plus":
        return z3.Plus(to_z3(r[1]))
    if k == "opt":
        return z3.Option(to_z3(r[1]))
    if k == "union":
        return z3.Union(*[to_z3(x) for x in r[1:]])
    if k == "concat":
        return z3.Concat(*[to_z3(x) for x in r[1:]])
    raise KeyError(k)


def from_z3(e):
    """inverse of to_z3 for the constructors above (used to read back compressed concatenations)"""
    import z3

    kind = e.decl().kind()
    if kind == z3.Z3_OP_SEQ_TO_RE:
        return ("re", e.children()[0].as_string())
    if e.decl().name() == "re.range":
        a, b = e.children()
        return ("range", a.as_string(), b.as_string())
    if kind == z3.Z3_OP_RE_STAR:
        return ("star", from_z3(e.children()[0]))
    if kind == z3.Z3_OP_RE_PLUS:
        return ("plus", from_z3(e.children()[0]))
    if kind == z3.Z3_OP_RE_OPTION:
        return ("opt", from_z3(e.children()[0]))
    if kind == z3.Z3_OP_RE_UNION:
        return ("union",) + tuple(from_z3(c) for c in e.children())
    if kind == z3.Z3_OP_RE_CONCAT:
        return ("concat",) + tuple(from_z3(c) for c in e.children())
    raise KeyError(str(e))


def show(r):
    k = r[0]
    if k == "re":
        return repr(r[1])[1:-1] if r[1] not in "+-" else "\\" + r[1]
    if k == "range":
        return f"[{r[1]}-{r[2]}]"
    if k == "star":
        return f"({show(r[1])})*"
    if k == "plus":
        return f"({show(r[1])})+"
    if k == "opt":
        return f"({show(r[1])})?"
    if k == "union":
        return "(" + "|".join(show(x) for x in r[1:]) + ")"
    return "".join(show(x) for x in r[1:])


def to_pyre(r):
    """translation to Python's re syntax (membership tests on longer strings)"""
    import re

    k = r[0]
    if k == "re":
        return re.escape(r[1])
    if k == "range":
        return "[" + re.escape(r[1]) + "-" + re.escape(r[2]) + "]"
    if k == "star":
        return "(?:" + to_pyre(r[1]) + ")*"
    if k == "plus":
        return "(?:" + to_pyre(r[1]) + ")+"
    if k == "opt":
        return "(?:" + to_pyre(r[1]) + ")?"
    if k == "union":
        return "(?:" + "|".join(to_pyre(x) for x in r[1:]) + ")"
    return "".join("(?:" + to_pyre(x) + ")" for x in r[1:])


def matches(r, w):
    import re

    return re.fullmatch(to_pyre(r), w) is not None
