"""Reference structural predicates, from document-order indices (DESIGN C04).

All functions take the reference root tree and two absolute paths and return True, False
or EITHER (documentation silent or contradictory: any implementation answer is accepted).
"""
from .reftree import paths, at, is_nt

EITHER = "either"


def prepost(root):
    """path -> (pre, post) with post = largest pre-index inside the subtree."""
    idx = {}
    c = [0]

    def rec(t, p):
        pre = c[0]
        c[0] += 1
        for i, ch in enumerate(t[1] or ()):
            rec(ch, p + (i,))
        idx[p] = (pre, c[0] - 1)

    rec(root, ())
    return idx


def before(idx, a, b):
    return idx[a][1] < idx[b][0]


def after(idx, a, b):
    return idx[b][1] < idx[a][0]


def inside(idx, a, b):
    return idx[b][0] <= idx[a][0] <= idx[b][1]


def same_position(idx, a, b):
    return idx[a][0] == idx[b][0]


def different_position(idx, a, b):
    return idx[a][0] != idx[b][0]


def direct_child(idx, a, b):
    # a's parent is b
    return len(a) == len(b) + 1 and a[: len(b)] == b


def consecutive(root, idx, a, b):
    """Documented only for leaves ("node_1 and node_2 are consecutive leaves"): a before b
    and no other leaf strictly between them in document order.  Reverse order: EITHER
    (the sentence can be read symmetrically).  Inner nodes: EITHER -- the shipped reST
    formalization calls it on <enumeration_item> nodes separated by a newline leaf and relies
    on that being "consecutive", so no generalisation to inner nodes is documented."""
    if a == b:
        return False
    if at(root, a)[1] or at(root, b)[1]:
        return EITHER
    if before(idx, b, a):
        return EITHER
    for p, st in paths(root):
        if st[1]:  # inner node
            continue
        if idx[a][1] < idx[p][0] and idx[p][1] < idx[b][0]:
            return False
    return True


def nth(root, idx, n, a, b):
    """a is the n-th node labelled like a, in document order, within b's subtree.
    Whether b itself takes part in the count is not documented: if it would, EITHER."""
    if not inside(idx, a, b):
        return False
    la = at(root, a)[0]
    sub = at(root, b)
    if sub[0] == la:
        return EITHER
    k = 0
    for p, st in paths(sub):
        if st[0] == la:
            k += 1
        if b + p == a:
            return k == n
    return False


def level(root, op, nt, a, b):
    """Closed form of the definition in the comment block of level_check.

    The level of a node is the number of its PROPER ancestors labelled nt below the common scope
    (two sibling <block>s inside one <block> are at the same <block> level - the reading the word
    "level" and the specification's {int x; {int y = x;}} example suggest).  Scope = deepest common
    prefix of both paths labelled nt (the root scope if none).
    Undocumented corner, EITHER: one argument is itself labelled nt AND is an ancestor of (or equal
    to) the other one - then it is its own scope and "same level as its content" has no documented meaning.
    """
    la, lb = at(root, a)[0], at(root, b)[0]
    if (la == nt and b[: len(a)] == a) or (lb == nt and a[: len(b)] == b):
        return EITHER
    scope = ()
    k = 0
    while k < min(len(a), len(b)) and a[k] == b[k]:
        k += 1
        if at(root, a[:k])[0] == nt:
            scope = a[:k]
    n1 = sum(1 for i in range(len(scope) + 1, len(a)) if at(root, a[:i])[0] == nt)
    n2 = sum(1 for i in range(len(scope) + 1, len(b)) if at(root, b[:i])[0] == nt)
    return {
        "EQ": n1 == 0 and n2 == 0,
        "GE": n1 == 0,
        "LE": n2 == 0,
        "GT": n1 == 0 and n2 > 0,
        "LT": n2 == 0 and n1 > 0,
    }[op]


BINARY = {
    "before": before,
    "after": after,
    "inside": inside,
    "same_position": same_position,
    "different_position": different_position,
    "direct_child": direct_child,
}


def pred(name, root, a, b, idx=None, extra=()):
    idx = idx or prepost(root)
    if name in BINARY:
        return BINARY[name](idx, a, b)
    if name == "consecutive":
        return consecutive(root, idx, a, b)
    if name == "nth":
        return nth(root, idx, int(extra[0]), a, b)
    if name == "level":
        return level(root, extra[0], extra[1], a, b)
    raise KeyError(name)
