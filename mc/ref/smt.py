"""Ground SMT atoms decided by Z3 itself (the oracle the specification names).

S-expressions are nested Python lists:  ["=", ["v", "x"], ["s", "lit"]]
  ["v", name]  variable (string sort)      ["s", text]  string literal
  ["i", n]     integer literal             [op, a, b..] application (op is SMT-LIB text, may be
                                           an indexed operator such as "(_ re.loop 1 2)")
Never builds Z3 expressions with == (isla.language patches ExprRef.__eq__).
"""
import functools

import z3

UNKNOWN = "unknown"


def smt_str(s):
    """SMT-LIB 2.6 string literal."""
    out = []
    for ch in s:
        o = ord(ch)
        if ch == '"':
            out.append('""')
        elif 32 <= o < 127 and ch != "\\":
            out.append(ch)
        else:
            out.append("\\u{%x}" % o)
    return '"' + "".join(out) + '"'


def isla_str(s):
    """ISLa concrete-syntax string literal (quotes escaped with a backslash, islaspec lexer rules)."""
    return '"' + s.replace('"', '\\"') + '"'


def to_smtlib(e, lit=smt_str):
    if isinstance(e, list):
        if e[0] == "v":
            return e[1]
        if e[0] == "s":
            return lit(e[1])
        if e[0] == "i":
            return str(e[1]) if e[1] >= 0 else f"(- {-e[1]})"
        if len(e) == 1 and isinstance(e[0], str):
            return e[0]
        head = e[0] if isinstance(e[0], str) else "(" + " ".join(map(str, e[0])) + ")"
        return "(" + " ".join([head] + [to_smtlib(a, lit) for a in e[1:]]) + ")"
    return str(e)


def to_isla(e):
    return to_smtlib(e, isla_str)


def variables(e, acc=None):
    acc = [] if acc is None else acc
    if isinstance(e, list):
        if isinstance(e[0], list):
            for a in e[1:]:
                variables(a, acc)
        elif e[0] == "v":
            if e[1] not in acc:
                acc.append(e[1])
        elif e[0] not in ("s", "i"):
            for a in e[1:]:
                variables(a, acc)
    return acc


def uses(e, op):
    if isinstance(e, list):
        if e[0] in ("v", "s", "i"):
            return False
        return e[0] == op or any(uses(a, op) for a in e[1:])
    return False


def to_int_args(e, acc=None):
    """argument expressions of str.to.int / str.to_int applications"""
    acc = [] if acc is None else acc
    if isinstance(e, list) and (isinstance(e[0], list) or e[0] not in ("v", "s", "i")):
        if e[0] in ("str.to.int", "str.to_int"):
            acc.append(e[1])
        for a in e[1:]:
            to_int_args(a, acc)
    return acc


NEEDED_SOLVER = set()  # ground atoms that z3.simplify alone did not decide (a solver call with a time budget was needed)


@functools.lru_cache(maxsize=200_000)
def _decide_text(text, names, values):
    decls = {n: z3.String(n) for n in names}
    try:
        fs = z3.parse_smt2_string(f"(assert {text})", decls=decls)
    except z3.Z3Exception as ex:  # malformed for Z3: the oracle has no opinion
        return ("error", str(ex)[:80])
    f = fs[0]
    if names:
        f = z3.substitute(f, *[(decls[n], z3.StringVal(v)) for n, v in zip(names, values)])
    s = z3.simplify(f)
    if z3.is_true(s):
        return True
    if z3.is_false(s):
        return False
    NEEDED_SOLVER.add((text, names, values))
    sol = z3.Solver()
    sol.set("timeout", 3000)
    sol.add(z3.Not(f))
    r = sol.check()
    if r == z3.unsat:
        return True
    if r == z3.sat:
        return False
    return UNKNOWN


def needed_solver(e, env):
    names = tuple(variables(e))
    return (to_smtlib(e), names, tuple(env[n] for n in names)) in NEEDED_SOLVER


def decide(e, env):
    """Truth of the ground instance of S-expression e under env {var: string}.
    True iff the negation is unsat (specification), False iff it is sat, UNKNOWN otherwise."""
    names = tuple(variables(e))
    return _decide_text(to_smtlib(e), names, tuple(env[n] for n in names))


def ground_expr(e, env=None):
    """The Z3 expression of the ground instance (for handing to ISLa's own functions)."""
    env = env or {}
    names = tuple(variables(e))
    decls = {n: z3.String(n) for n in names}
    f = z3.parse_smt2_string(f"(assert {to_smtlib(e)})", decls=decls)[0]
    if names:
        f = z3.substitute(f, *[(decls[n], z3.StringVal(env[n])) for n in names])
    return f


def ground_expr_open(e):
    """the Z3 expression with its variables left free (declared as strings)"""
    names = tuple(variables(e))
    decls = {n: z3.String(n) for n in names}
    return z3.parse_smt2_string(f"(assert {to_smtlib(e)})", decls=decls)[0]
