"""Membership w in L(N) and bounded language enumeration — independent of the Earley parser.

Both work on canonical grammars from reftree.canon (terminal symbols may be multi-char).
"""
import functools
import itertools

from .reftree import is_nt


def bounded_lang(cg, maxlen):
    """{nt: frozenset of all w in L(nt) with len(w) <= maxlen} by least fixpoint."""
    lang = {nt: set() for nt in cg}
    changed = True
    while changed:
        changed = False
        for nt, alts in cg.items():
            for alt in alts:
                acc = {""}
                for s in alt:
                    if is_nt(s):
                        opts = lang.get(s, ())
                    else:
                        opts = (s,)
                    acc = {a + b for a in acc for b in opts if len(a) + len(b) <= maxlen}
                    if not acc:
                        break
                new = acc - lang[nt]
                if new:
                    lang[nt] |= new
                    changed = True
    return {k: frozenset(v) for k, v in lang.items()}


def member(cg, nt, w):
    """w in L(nt)?  CYK-style fixpoint over substrings of w."""
    n = len(w)
    # table[(X,i,j)] True if X =>* w[i:j]
    table = set()
    changed = True

    def alt_matches(alt, i, j):
        # can alt derive w[i:j] given current table?
        pos = {i}
        for s in alt:
            nxt = set()
            for p in pos:
                if is_nt(s):
                    for q in range(p, j + 1):
                        if (s, p, q) in table:
                            nxt.add(q)
                else:
                    q = p + len(s)
                    if q <= j and w[p:q] == s:
                        nxt.add(q)
            pos = nxt
            if not pos:
                return False
        return j in pos

    while changed:
        changed = False
        for X, alts in cg.items():
            for i in range(n + 1):
                for j in range(i, n + 1):
                    if (X, i, j) in table:
                        continue
                    if any(alt_matches(alt, i, j) for alt in alts):
                        table.add((X, i, j))
                        changed = True
    return (nt, 0, n) in table


def nullable(cg):
    nl = set()
    ch = True
    while ch:
        ch = False
        for nt, alts in cg.items():
            if nt in nl:
                continue
            if any(all(is_nt(s) and s in nl for s in alt) for alt in alts):
                nl.add(nt)
                ch = True
    return nl


def productive(cg):
    pr = set()
    ch = True
    while ch:
        ch = False
        for nt, alts in cg.items():
            if nt in pr:
                continue
            if any(all((not is_nt(s)) or s in pr for s in alt) for alt in alts):
                pr.add(nt)
                ch = True
    return pr


def reachable(cg, start):
    seen = {start}
    todo = [start]
    while todo:
        x = todo.pop()
        for alt in cg.get(x, ()):
            for s in alt:
                if is_nt(s) and s not in seen:
                    seen.add(s)
                    todo.append(s)
    return seen


def reach_rel(cg):
    """{nt: set of nonterminals reachable in >= 1 step}."""
    out = {}
    for nt in cg:
        seen = set()
        todo = [nt]
        while todo:
            x = todo.pop()
            for alt in cg.get(x, ()):
                for s in alt:
                    if is_nt(s) and s not in seen:
                        seen.add(s)
                        todo.append(s)
        out[nt] = seen
    return out


def has_cyclic_unit(cg):
    """A =>+ A through nullable context (infinitely ambiguous): excluded from C10."""
    nl = nullable(cg)
    edges = {nt: set() for nt in cg}
    for nt, alts in cg.items():
        for alt in alts:
            for k, s in enumerate(alt):
                if not is_nt(s):
                    continue
                rest = alt[:k] + alt[k + 1:]
                if all(is_nt(r) and r in nl for r in rest):
                    edges[nt].add(s)
    for nt in cg:
        seen = set()
        todo = list(edges[nt])
        while todo:
            x = todo.pop()
            if x == nt:
                return True
            if x in seen:
                continue
            seen.add(x)
            todo.extend(edges.get(x, ()))
    return False


def well_formed(cg, start="<start>"):
    if start not in cg:
        return False
    for alts in cg.values():
        for alt in alts:
            for s in alt:
                if is_nt(s) and s not in cg:
                    return False
    if reachable(cg, start) != set(cg):
        return False
    if productive(cg) != set(cg):
        return False
    return True
