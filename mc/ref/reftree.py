"""Reference trees: boring nested tuples, independent of isla.derivation_tree.

A tree is ``(label, children, id)`` where ``children`` is ``None`` (open leaf) or a
tuple of trees.  ``id`` may be None when identity does not matter.

A canonical grammar here is ``{nt: [[sym, ...], ...]}`` (an own split, not ISLa's).
"""
import itertools
import re

RE_NT = re.compile(r"(<[^<> ]*>)")


def is_nt(s):
    return bool(RE_NT.fullmatch(s))


def canon(G):
    return {k: [[t for t in RE_NT.split(a) if t] for a in alts] for k, alts in G.items()}


def label(t):
    return t[0]


def children(t):
    return t[1]


def tid(t):
    return t[2] if len(t) > 2 else None


def mk(label_, children_=None, id_=None):
    return (label_, None if children_ is None else tuple(children_), id_)


def tstr(t):
    """Yield: concatenation of terminal leaves; nonterminal leaves contribute ''."""
    if t[1] is None:
        return ""
    if not t[1]:
        return "" if is_nt(t[0]) else t[0]
    return "".join(tstr(c) for c in t[1])


def is_open(t):
    if t[1] is None:
        return True
    return any(is_open(c) for c in t[1])


def paths(t, p=()):
    """(path, subtree) in document (pre-)order."""
    yield p, t
    for i, c in enumerate(t[1] or ()):
        yield from paths(c, p + (i,))


def at(t, p):
    for i in p:
        t = t[1][i]
    return t


def size(t):
    return 1 + sum(size(c) for c in (t[1] or ()))


def depth(t):
    return 1 + max((depth(c) for c in (t[1] or ())), default=0)


def replace(t, p, r):
    if not p:
        return r
    ch = list(t[1])
    ch[p[0]] = replace(ch[p[0]], p[1:], r)
    return (t[0], tuple(ch)) + tuple(t[2:])


def strip_ids(t):
    return (t[0], None if t[1] is None else tuple(strip_ids(c) for c in t[1]))


def with_ids(t, counter=None):
    """Number nodes in document order starting from 0 (deterministic ids)."""
    if counter is None:
        counter = itertools.count()
    i = next(counter)
    ch = None if t[1] is None else tuple(with_ids(c, counter) for c in t[1])
    return (t[0], ch, i)


def valid(cg, t, allow_open=True):
    """Is t a derivation tree of canonical grammar cg (rooted at its own label)?

    Inner node: child labels, dropping '' children, equal one alternative.
    Terminal leaf: children == ().  Nonterminal leaf: open (None, if allowed) or, only
    if the nonterminal has an epsilon alternative, ().
    """
    lab, ch = t[0], t[1]
    if not is_nt(lab):
        return ch == ()
    if lab not in cg:
        return False
    if ch is None:
        return allow_open
    labs = [c[0] for c in ch if c[0] != ""]
    if labs not in cg[lab]:
        return False
    for c in ch:
        if c[0] == "":
            if c[1] != ():
                return False
        elif not valid(cg, c, allow_open):
            return False
    return True


def is_prefix(p, c):
    """p is an open prefix of c (same shape where p is expanded)."""
    if p[0] != c[0]:
        return False
    if p[1] is None:
        return True
    if c[1] is None or len(p[1]) != len(c[1]):
        return False
    return all(is_prefix(a, b) for a, b in zip(p[1], c[1]))


# ---- bridging to ISLa (kept here so every check converts the same way)

def to_dt(t, keep_ids=True, bump=True):
    """bump=False leaves ISLa's id counter alone (C12 uses it to put caller-supplied ids just ahead of the counter on purpose)"""
    from isla.derivation_tree import DerivationTree as DT

    ch = None if t[1] is None else [to_dt(c, keep_ids, bump) for c in t[1]]
    i = tid(t) if keep_ids else None
    if bump and i is not None and i >= DT.next_id:
        # nodes ISLa creates later must not reuse an identity given out here (DerivationTree.from_json does the same)
        DT.next_id = i + 1
    return DT(t[0], ch, id=i)


def from_dt(dt):
    ch = dt.children
    return (dt.value, None if ch is None else tuple(from_dt(c) for c in ch), dt.id)


def tjson(t):
    """JSON-able rendering for replay files."""
    return [t[0], None if t[1] is None else [tjson(c) for c in t[1]], tid(t)]


def from_tjson(j):
    return (j[0], None if j[1] is None else tuple(from_tjson(c) for c in j[1]), j[2] if len(j) > 2 else None)
