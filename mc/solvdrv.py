"""SOLV — the monitored solver driver (DESIGN 2.5).

drive() constructs an ISLaSolver and calls solve() a number of times under the choice-point
explorer (all entropy owned: random.* answers from a script/default schedule) and, optionally,
a virtual clock (isla.solver.time replaced).  Every call's outcome is recorded:
  ("tree", reference tree) | ("stop",) | ("timeout",) | ("exc", key, message) | ("cap",)
"""
import time as _time

from . import explorer
from .ref import reftree as RT
from .runner import time_cap, CaseTimeout


class VirtualClock:
    """time() stands still until poll number `deadline_poll`, then jumps far ahead and never goes back.
    `advance_more` makes every later poll advance further (clock keeps running)."""

    def __init__(self, deadline_poll=None, advance_more=False):
        self.polls = 0
        self.deadline_poll = deadline_poll
        self.advance_more = advance_more
        self.now = 1_000_000

    def time(self):
        i = self.polls
        self.polls += 1
        if self.deadline_poll is not None and i >= self.deadline_poll:
            if i == self.deadline_poll:
                self.now += 10_000_000
            elif self.advance_more:
                self.now += 1000
        return float(self.now)

    # anything else the module might use
    def __getattr__(self, name):
        return getattr(_time, name)


def reset_globals():
    """every piece of process-global state ISLa keeps, so that a run is a function of its answers"""
    import gc
    import isla.language as L
    from isla.derivation_tree import DerivationTree as DT

    DT.next_id = 3_000_000
    L.DummyVariable.cnt = 0
    try:
        setattr(L.ForallFormula, "_ForallFormula__next_id", 0)
    except Exception:  # noqa
        pass
    for obj in gc.get_objects():
        try:
            if hasattr(obj, "cache_clear") and callable(obj.cache_clear) and getattr(obj, "__module__", "").startswith(("isla", "grammar_graph")):
                obj.cache_clear()
        except Exception:  # noqa
            pass


def drive(g, text, settings, ncalls, extra_calls=2, script=(), default_seed=1, clock=None, call_cap=8.0, total_cap=40.0):
    """returns (outcomes, info).  After the first sink outcome (stop/timeout) `extra_calls` more calls are made."""
    import isla.solver as S
    from isla.derivation_tree import DerivationTree as DT

    info = dict(steps=0, choice_points=0, solver_constructed=True)
    outcomes = []
    ex = explorer.Execution(list(script), default_seed)
    real_time = S.time
    t_start = _time.time()
    try:
        with explorer.patched(ex):
            if clock is not None:
                S.time = clock
            reset_globals()
            try:
                with time_cap(call_cap * 2):
                    solver = S.ISLaSolver(g, text, **settings)
            except CaseTimeout:
                info["solver_constructed"] = False
                return [("cap",)], info
            except explorer.ReplayDivergence:
                raise
            except BaseException as e:  # noqa
                from .checks.common import exc_key

                info["solver_constructed"] = False
                return [("ctor-exc", exc_key(e), str(e)[:160])], info
            since_sink = 0  # number of calls made from the first sink outcome on (0 = no sink yet)
            calls = 0
            while True:
                if since_sink == 0 and calls >= ncalls:
                    break
                if since_sink > extra_calls:
                    break
                if _time.time() - t_start > total_cap:
                    outcomes.append(("cap",))
                    break
                calls += 1
                sink = False
                try:
                    with time_cap(call_cap):
                        t = solver.solve()
                    outcomes.append(("tree", RT.from_dt(t)))
                except CaseTimeout:
                    outcomes.append(("cap",))
                    break
                except StopIteration:
                    outcomes.append(("stop",))
                    sink = True
                except TimeoutError:
                    outcomes.append(("timeout",))
                    sink = True
                except explorer.ReplayDivergence:
                    raise
                except BaseException as e:  # noqa
                    from .checks.common import exc_key

                    outcomes.append(("exc", exc_key(e), f"{type(e).__name__}: {str(e)[:160]}"))
                    sink = True
                if sink or since_sink:
                    since_sink += 1
            info["steps"] = getattr(solver, "step_cnt", 0)
    finally:
        S.time = real_time
    info["choice_points"] = len(ex.points)
    info["script"] = [p[2] for p in ex.points]
    info["sizes"] = [p[1] for p in ex.points]
    info["clock_polls"] = clock.polls if clock is not None else None
    return outcomes, info
