"""Child process of the C22 check: fresh interpreter, seeds random, solves, prints the solution sequence.

usage: python -m mc.c22_child '<json instance>'
instance: {"g": name, "text": constraint, "settings": {...}, "n": int, "seed": int, "census": bool}
Output: one repr(solution string) per line, then END:<how the run ended>, then CENSUS:<json list> (census mode).
"""
import json
import random
import sys


def main():
    inst = json.loads(sys.argv[1])
    calls = []
    if inst.get("census"):
        import os
        import time
        import uuid

        def wrap(mod, name):
            real = getattr(mod, name)

            def w(*a, **k):
                f = sys._getframe(1)
                depth = 0
                while f is not None and depth < 6:
                    fn = f.f_code.co_filename
                    if "/isla/" in fn or "/isla_formalizations/" in fn:
                        calls.append(f"{mod.__name__}.{name}@{fn.rsplit('/', 1)[-1]}:{f.f_code.co_name}")
                        break
                    f = f.f_back
                    depth += 1
                return real(*a, **k)

            setattr(mod, name, w)

        for mod, name in ((time, "time"), (time, "perf_counter"), (time, "monotonic"), (os, "urandom"), (uuid, "uuid4"), (uuid, "uuid1")):
            wrap(mod, name)
        real_sysrandom = random.SystemRandom

        class SR(real_sysrandom):
            def __init__(self, *a, **k):
                calls.append("random.SystemRandom()")
                super().__init__(*a, **k)

        random.SystemRandom = SR
    # Z3 answering "unknown" (its own 500 ms budget, i.e. machine load) sends z3_solve into a retry loop that
    # consumes Python's random stream: such a run is marked and not compared
    retry = []
    real_shuffle, real_randint = random.shuffle, random.randint

    def shuffle(x, *a, **k):
        if sys._getframe(1).f_code.co_filename.endswith("z3_helpers.py"):
            retry.append(1)
        return real_shuffle(x, *a, **k)

    def randint(lo, hi):
        if sys._getframe(1).f_code.co_filename.endswith("z3_helpers.py"):
            retry.append(1)
        return real_randint(lo, hi)

    random.shuffle, random.randint = shuffle, randint
    import logging

    logging.disable(logging.CRITICAL)
    from mc.universe import grammars as GR
    from isla.solver import ISLaSolver

    g = GR.cat(inst["g"]) if isinstance(inst["g"], str) else inst["g"]
    random.seed(inst["seed"])
    end = "n-reached"
    try:
        s = ISLaSolver(g, inst["text"], **inst["settings"])
        for _ in range(inst["n"]):
            try:
                print(repr(str(s.solve())), flush=True)
            except StopIteration:
                end = "StopIteration"
                break
            except TimeoutError:
                end = "TimeoutError"
                break
    except Exception as e:  # noqa
        end = f"{type(e).__name__}"
    print("END:" + end + (";z3-unknown-retry" if retry else ""))
    if inst.get("census"):
        print("CENSUS:" + json.dumps(sorted(set(calls))))


if __name__ == "__main__":
    main()
