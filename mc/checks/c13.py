"""C13 — tree insertion yields valid trees keeping all original nodes and the new tree.

insert_tree(canonical(G), tree, host, graph, max_num_solutions, methods) for every host (closed
trees and their open prefixes), every insertable tree (single open nonterminal nodes, one- and
two-step open expansions - what existential elimination inserts for match expressions), every
method bitmask 1..7 and several solution limits.  Deterministic, no random choices.
"""
import itertools

from ..ref import reftree as RT
from ..ref.reftree import canon, is_nt, paths, tstr, tjson, from_tjson, with_ids
from ..runner import Result, time_cap, CaseTimeout
from ..universe import grammars as GR
from ..universe.trees import closed_trees, open_prefixes
from . import common

PROPERTY = "C13"
LEVEL = "model_checking"
RULE = (
    "grammars assgn/block/tags/null/list/pairs x hosts (all closed trees up to a node bound and all their one-node open prefixes) x "
    "inserted trees (every partial tree of every nonterminal: each nonterminal open or expanded, expansion depth <= 3, <= 8/10 nodes x method bitmasks (quick: each single method and all three; thorough: 1..7) x max_num_solutions in {1, 50}; a schema is (grammar, inserted-tree shape, methods); "
    "non-trivial iff some call returned results and some call returned none"
)
ASSUMPTIONS = [
    "an AssertionError (or any other exception) escaping insert_tree counts as a violation: its own guards vanish under python -O, the property does not",
    "'contains the inserted tree' = every expanded node of the inserted tree is found by id with its label and keeps its child list; an open leaf of the inserted tree may have been filled or replaced by a node with the same label (context addition connects trees there)",
]
TASKS_PER_CHILD = 4

PAIRS = {
    "<start>": ["<item>"],
    "<item>": ["<num>", "<pair>"],
    "<pair>": ["(<item>,<item>)"],
    "<num>": ["1", "2"],
}

WHILE = {
    "<start>": ["<block>"],
    "<block>": ["{<stmts>}"],
    "<stmts>": ["<stmt>", "<stmt><stmts>"],
    "<stmt>": ["while <body>", "x", "<block>"],
    "<body>": ["<block>"],
}

GRAMS = {"assgn": GR.ASSGN, "block": GR.BLOCK, "tags": GR.TAGS, "null": GR.NULL, "list": GR.LIST, "pairs": PAIRS, "while": WHILE}
HOST_BOUND = {"assgn": (6, 14), "block": (6, 14), "tags": (5, 22), "null": (6, 14), "list": (5, 10), "pairs": (6, 13), "while": (8, 14)}
HOST_BOUND_T = {"assgn": (6, 20), "block": (7, 18), "tags": (5, 30), "null": (7, 20), "list": (5, 14), "pairs": (7, 20), "while": (9, 18)}


def hosts(name, tier):
    cg = canon(GRAMS[name])
    d, n = (HOST_BOUND if tier == "quick" else HOST_BOUND_T)[name]
    ts = closed_trees(cg, "<start>", d, max_nodes=n)
    out = list(ts)
    seen = set(ts)
    for t in ts:
        for p, _ in open_prefixes(t, max_open=1 if tier == "quick" else 2):
            if p not in seen:
                seen.add(p)
                out.append(p)
    out.append(("<start>", None))
    return out


def insertables(name, tier="quick"):
    """(shape name, reference tree without ids): every partial tree (each nonterminal open or expanded) of every
    nonterminal up to an expansion depth and node bound - what existential elimination inserts for match expressions"""
    from ..universe.trees import partial_trees

    cg = canon(GRAMS[name])
    out = []
    d, n = (3, 8) if tier == "quick" else (3, 10)
    for X in cg:
        if X == "<start>":
            continue
        for t in partial_trees(cg, X, d, n):
            if t[1] is None:
                out.append((f"open:{X}", t))
            else:
                out.append((f"expanded:{X}/{RT.depth(t) - 1}", t))
    return out


def chunks(tier, seed):
    out = []
    for name in GRAMS:
        H = hosts(name, tier)
        per = 10 if tier == "quick" else 6
        for i in range(0, len(H), per):
            out.append(dict(g=name, lo=i, hi=min(len(H), i + per), tier=tier))
    return out


def _ids_from(t, start):
    c = itertools.count(start)
    return RT.with_ids(t, c)


def check_call(r, name, g, cg, icg, graph, host, ins_name, ins, methods, maxsol):
    from isla.existential_helpers import insert_tree
    from isla.derivation_tree import DerivationTree as DT

    DT.next_id = 1_000_000
    href = _ids_from(host, 0)
    iref = _ids_from(ins, 5000)
    hdt, idt = RT.to_dt(href), RT.to_dt(iref)
    case = dict(g=name, host=tjson(href), ins=tjson(iref), ins_name=ins_name, methods=methods, maxsol=maxsol)
    r.evals += 1
    r.transitions += 1
    sch = (name, ins_name.split(":")[0], methods)
    try:
        res = insert_tree(icg, idt, hdt, graph=graph, max_num_solutions=maxsol, methods=methods)
    except CaseTimeout:
        raise
    except BaseException as e:  # noqa
        r.viol(f"raises/{common.exc_key(e)}/methods-{methods}", f"insert_tree({_show(iref)!r} into {_show(href)!r}, methods={methods}) raised {type(e).__name__}: {str(e)[:100]}", case, "list of trees", type(e).__name__)
        return
    r.verdict(sch, bool(res))
    r.outcomes[f"results:{min(len(res), 5)}{'+' if len(res) > 5 else ''}"] += 1
    hnodes = [(st[2], st[0]) for _p, st in paths(href)]
    # nodes of the inserted tree: (id, label, children) with children None for an open leaf; an open leaf may be
    # filled/replaced by a node with the same label (that is how context addition connects the trees)
    inodes = [(st[2], st[0], st[1]) for _p, st in paths(iref)]
    open_leaf_ids = {st[2] for _p, st in paths(iref) if st[1] is None and _p != ()}
    for t in res:
        ref = RT.from_dt(t)
        r.transitions += 1
        bad = None
        if ref[0] != href[0]:
            bad = ("root-label", f"root is {ref[0]}, host root is {href[0]}")
        elif not RT.valid(cg, ref, allow_open=True):
            bad = ("invalid-tree", "result is not a derivation tree of the grammar")
        else:
            byid = {}
            dup = False
            for _p, st in paths(ref):
                if st[2] in byid:
                    dup = True
                byid[st[2]] = st
            if dup:
                bad = ("duplicate-ids", "node ids are not unique")
            else:
                for i, lab in hnodes:
                    if i not in byid or byid[i][0] != lab:
                        bad = ("host-node-lost", f"host node id {i} ({lab}) is missing or relabelled")
                        break
                if bad is None:
                    for i, lab, kids in inodes:
                        if i in open_leaf_ids:
                            continue  # checked positionally through its parent
                        if i not in byid or byid[i][0] != lab:
                            bad = ("inserted-node-lost", f"node id {i} ({lab}) of the inserted tree is missing")
                            break
                        if kids:
                            got = byid[i][1]
                            ok = got is not None and len(got) == len(kids) and all(
                                (gc[0] == kc[0]) if kc[1] is None else (gc[2] == kc[2]) for gc, kc in zip(got, kids)
                            )
                            if not ok:
                                relabelled = got is None or [c[0] for c in got] != [c[0] for c in kids]
                                if relabelled and _kept_as_subsequence(kids, got):
                                    # the node got a longer alternative; all inserted children are still there (open ones by label)
                                    bad = ("inserted-node-re-expanded", f"node {i} ({lab}) of the inserted tree now has children {[c[0] for c in got or ()]} instead of {[c[0] for c in kids]}")
                                elif relabelled:
                                    bad = ("inserted-children-dropped", f"node {i} ({lab}) of the inserted tree now has children {[c[0] for c in got or ()]}; its inserted children {[c[0] for c in kids]} are gone")
                                else:
                                    bad = ("inserted-structure-changed", f"children of inserted node {i} ({lab}) were replaced by other nodes")
                                break
        if bad:
            shape = "open-node" if ins_name.startswith("open:") else "expanded-inserted-tree"
            key = f"{bad[0]}/{'with' if methods & 4 else 'without'}-context-addition/{shape}"
            if methods & 4 and bad[0] in ("inserted-node-re-expanded", "inserted-children-dropped", "inserted-structure-changed", "inserted-node-lost"):
                # context addition is documented as lossy in the source; the known finding lists the exact
                # (grammar, inserted tree, symptom) instances that fail on the pinned tree
                key = f"context-addition-loses-inserted-nodes/{name}/{_show(iref)}/{bad[0]}"
            r.viol(key,
                   f"insert_tree({_show(iref)!r} into {_show(href)!r}, methods={methods}, max={maxsol}) returned {_show(ref)!r}: {bad[1]}",
                   case, "valid tree containing host nodes and inserted tree", _show(ref))


def _kept_as_subsequence(kids, got):
    """every inserted child is still a child, in order: expanded/closed ones by id, open ones by label"""
    j = 0
    got = got or ()
    for kc in kids:
        while j < len(got) and not ((got[j][0] == kc[0]) if kc[1] is None else (got[j][2] == kc[2])):
            j += 1
        if j == len(got):
            return False
        j += 1
    return True


def _show(t):
    if t[1] is None:
        return t[0]
    if not t[1]:
        return "" if is_nt(t[0]) else t[0]
    return "".join(_show(c) for c in t[1])


def run_chunk(chunk):
    from grammar_graph import gg
    from isla.helpers import canonical

    r = Result()
    name, tier = chunk["g"], chunk["tier"]
    g = GRAMS[name]
    cg = canon(g)
    icg = canonical(g)
    graph = gg.GrammarGraph.from_grammar(g)
    H = hosts(name, tier)[chunk["lo"]:chunk["hi"]]
    INS = insertables(name, tier)
    for host in H:
        r.state(name, host)
        for ins_name, ins in INS:
            for methods in (range(1, 8) if tier == "thorough" else (1, 2, 4, 7)):
                for maxsol in ((1, 50) if tier == "thorough" or methods == 7 else (50,)):
                    try:
                        with time_cap(60):
                            check_call(r, name, g, cg, icg, graph, host, ins_name, ins, methods, maxsol)
                    except CaseTimeout:
                        r.caps["call_timeout_60s"] += 1
        r.sample({"grammar": name, "host": _show(host), "insertable_trees": len(INS), "methods": "1..7"}, limit=2)
    return r


def replay(case):
    from grammar_graph import gg
    from isla.helpers import canonical

    r = Result()
    name = case["g"]
    g = GRAMS[name]
    host = RT.strip_ids(from_tjson(case["host"]))
    ins = RT.strip_ids(from_tjson(case["ins"]))
    check_call(r, name, g, canon(g), canonical(g), gg.GrammarGraph.from_grammar(g), host, case["ins_name"], ins, case["methods"], case["maxsol"])
    return r.viols
