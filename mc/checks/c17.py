"""C17 — serialized trees and constraints round-trip without damaging the original.

(a) BFS over histories (length <= 3 quick / 4 thorough) of cache computations and serializations
    on seed trees: after EVERY step all observers are re-run on the ORIGINAL tree and compared
    with the reference; every decoded tree is compared with the original.
(b) SMTFormula pickling: every operator skeleton family of C05 x string literals over an alphabet
    with quotes, backslashes, newlines and non-ASCII characters; the unpickled formula must equal
    the original, print identically and evaluate identically.
(c) CLI JSON: derivation_tree_to_json(t) -> the JSON branch of get_input_string -> the same tree.
"""
import copy
import itertools
import pickle

from .. import bfs
from ..bfs import Violation
from ..ref import reftree as RT, smt
from ..ref.reftree import canon, paths, tstr, is_nt, tjson, from_tjson
from ..runner import Result, time_cap, CaseTimeout
from ..universe import grammars as GR
from . import common
from .c16 import _seeds, _walk, _clear_lru

PROPERTY = "C17"
LEVEL = "model_checking"
RULE = (
    "(a) explicit-state BFS: 6 seed trees x histories over {k_paths on root / on a child / concrete-only, structural_hash, hash, is_open, "
    "str, paths, trie, len, pickle round trip, to_json, from_json(to_json), deepcopy, pickle of a child}; state key = history's set of "
    "filled caches per node + number of serializations; (b) SMT atoms {=, str.++, str.len, str.in_re/str.to_re, str.prefixof, str.replace, "
    "conjunction} x literal pairs over {plain, empty, quote, backslash, trailing backslash, newline, tab, Latin-1, BMP, \\\\u-lookalike "
    "text, NUL, runs of blanks, blank lines}, also inside a term long enough for Z3's printer to wrap lines, with and without substituted trees; (c) every "
    "tree of the assgn/null/tags universes through the CLI's JSON writer and reader; (d) CLI pipeline: `isla parse` output (stdout as printed / -o file, plain / pretty) "
    "written to a file and read back by `isla parse`, 12 trees of each of three grammars; a schema is "
    "(part, operation); non-trivial iff the operation was observed from at least two different cache states / literal classes"
)
ASSUMPTIONS = [
    "a decoded tree must have the same structure, ids, string and openness as the original; the original must answer every observer exactly as before",
    "SMT formulas: equality after unpickling is judged by == of the formulas and by the printed form of the Z3 expression",
]
TASKS_PER_CHILD = 4

OPS = ["k_paths_root", "k_paths_child", "k_paths_concrete", "structural_hash", "hash", "is_open", "str", "paths", "trie", "len",
       "pickle", "to_json", "json_roundtrip", "deepcopy", "pickle_child"]
SERIAL = {"pickle", "to_json", "json_roundtrip", "deepcopy", "pickle_child"}


class H:
    """one seed tree with its grammar graph; build(history) replays the history on a fresh real tree"""

    def __init__(self, si):
        from grammar_graph import gg

        self.si = si
        self.gname, self.grammar, self.seed = _seeds()[si]
        self.graph = gg.GrammarGraph.from_grammar(self.grammar)
        self.cg = canon(self.grammar)

    def build(self, hist):
        from isla.derivation_tree import DerivationTree as DT

        _clear_lru()
        DT.next_id = 500_000
        ref = RT.with_ids(self.seed)
        dt = RT.to_dt(ref)
        nser = 0
        filled = []
        for op in hist[1:]:
            name = op[0]
            try:
                decoded = self.apply(dt, name)
            except Violation:
                raise
            except Exception as e:  # noqa
                raise Violation(f"raises/{name}/{common.exc_key(e)}", f"{name} raised {type(e).__name__}: {str(e)[:100]}")
            if name in SERIAL:
                nser += 1
            filled.append(name)
            if decoded is not None:
                dref = RT.from_dt(decoded)
                want = ref if name != "pickle_child" else RT.at(ref, (0,))
                if dref != want:
                    raise Violation(f"decoded-tree-differs/{name}", f"tree decoded after {name} differs from the original (structure, labels or ids)", want, dref)
                if str(decoded) != _ostr(want) or decoded.is_open() != RT.is_open(want):
                    raise Violation(f"decoded-tree-string-or-openness/{name}", f"decoded tree after {name}: str {str(decoded)!r}, is_open {decoded.is_open()}")
                # the decoded tree must itself be usable
                self.observe(decoded, want, f"decoded-after-{name}")
            # the ORIGINAL must behave exactly as before
            self.observe(dt, ref, f"original-after-{name}")
        st = bfs_state((self.si, tuple(sorted(set(filled))), min(nser, 2), _cache_sig(dt)))
        st.ref = ref
        return st

    def apply(self, dt, name):
        from isla.derivation_tree import DerivationTree as DT

        valid = RT.valid(self.cg, RT.from_dt(dt))
        if name == "k_paths_root":
            if valid:
                dt.k_paths(self.graph, 3)
        elif name == "k_paths_child":
            if valid and dt.children:
                dt.children[0].k_paths(self.graph, 2)
        elif name == "k_paths_concrete":
            if valid:
                dt.k_paths(self.graph, 2, include_potential_paths=False)
        elif name == "structural_hash":
            dt.structural_hash()
        elif name == "hash":
            hash(dt)
        elif name == "is_open":
            dt.is_open()
        elif name == "str":
            str(dt)
        elif name == "paths":
            dt.paths()
        elif name == "trie":
            dt.trie()
        elif name == "len":
            len(dt)
            for _p, n in list(_walk(dt))[:3]:
                len(n)
        elif name == "pickle":
            return pickle.loads(pickle.dumps(dt))
        elif name == "to_json":
            dt.to_json()
        elif name == "json_roundtrip":
            return DT.from_json(dt.to_json())
        elif name == "deepcopy":
            return copy.deepcopy(dt)
        elif name == "pickle_child":
            if dt.children:
                return pickle.loads(pickle.dumps(dt.children[0]))
        return None

    def observe(self, dt, ref, when):
        def bad(what, detail=""):
            raise Violation(f"observer/{what}/{when.split('-after-')[0]}-after-serialization" if any(s in when for s in SERIAL) else f"observer/{what}/{when.split('-after-')[0]}", f"{when}: {what} {detail}")

        try:
            if str(dt) != _ostr(ref):
                bad("str", f"{str(dt)!r} != {_ostr(ref)!r}")
            if dt.to_string() != tstr(ref):
                bad("to_string")
            if dt.is_open() != RT.is_open(ref):
                bad("is_open")
            if [(p, n.value, n.id) for p, n in dt.paths()] != [(p, st[0], st[2]) for p, st in paths(ref)]:
                bad("paths")
            if len(dt) != RT.size(ref):
                bad("len", f"{len(dt)} != {RT.size(ref)}")
            # sizes of subtrees reached through .children (not through cached lookups)
            for n, (_p, st) in zip(_iter_children(dt), paths(ref)):
                if len(n) != RT.size(st):
                    bad("len-of-subtree", f"at a node labelled {st[0]}")
            if RT.from_dt(dt) != ref:
                bad("structure")
            twin = RT.to_dt(ref)
            if dt != twin or hash(dt) != hash(twin) or dt.structural_hash() != twin.structural_hash():
                bad("equality-or-hash")
            if [p for p, _ in dt.trie().items()] != [p for p, _ in paths(ref)]:
                bad("trie")
            if RT.valid(self.cg, ref):
                k1 = dt.k_paths(self.graph, 3)
                k2 = twin.k_paths(self.graph, 3)
                if k1 != k2:
                    bad("k_paths", "differ from a freshly built equal tree")
                if dt.children:
                    if dt.children[0].k_paths(self.graph, 2) != twin.children[0].k_paths(self.graph, 2):
                        bad("k_paths-of-child")
        except Violation:
            raise
        except CaseTimeout:
            raise
        except Exception as e:  # noqa
            raise Violation(f"observer-raises/{common.exc_key(e)}/{when.split('-after-')[0]}", f"{when}: observer raised {type(e).__name__}: {str(e)[:120]}")

    def enabled(self, st):
        return [(o,) for o in OPS]


def _iter_children(dt):
    yield dt
    for c in dt.children or ():
        yield from _iter_children(c)


def _ostr(ref):
    return "".join((st[0] if st[1] is None else ("" if is_nt(st[0]) else st[0])) for _p, st in paths(ref) if not st[1])


def _cache_sig(dt):
    out = []
    for _p, n in _walk(dt):
        d = n.__dict__
        out.append((tuple(sorted(k for k in d if "k_paths" in k and d[k])), d.get("_DerivationTree__hash") is not None, d.get("_DerivationTree__len") is not None))
    return tuple(out)


class bfs_state:
    def __init__(self, key):
        self.key = key


# ------------------------------------------------------------------ (b) SMT formulas

LITS = ["a", "", 'a"b', '"', "\\", "a\\", "C:\\dir\\", "a\nb", "\t", "ä", "ÿ\x80", "€", "\\u{41}", "a\x00b", "it's", "a b", "a  b", "  ", " a ", "a\n\n b", "\t\t"]


def smt_skeletons():
    X = ["v", "x"]
    S = lambda s: ["s", s]
    out = []
    for name, mk in [
        ("eq", lambda a, b: ["=", X, S(a)]),
        ("concat", lambda a, b: ["=", ["str.++", X, S(a)], S(b)]),
        ("len", lambda a, b: ["=", ["str.len", S(a)], ["str.len", X]]),
        ("in_re", lambda a, b: ["str.in_re", X, ["re.++", ["str.to_re", S(a)], ["re.*", ["str.to_re", S(b)]]]]),
        ("prefixof", lambda a, b: ["str.prefixof", S(a), ["str.++", X, S(b)]]),
        ("replace", lambda a, b: ["=", ["str.replace", X, S(a), S(b)], X]),
        ("and", lambda a, b: ["and", ["=", X, S(a)], ["not", ["=", X, S(b)]]]),
        # long enough for Z3's pretty printer to break the term over several indented lines
        ("long", lambda a, b: ["and"] + [["not", ["=", ["str.++", X, S(a * 3 + str(k) + b)], S(b + "0123456789" * 2 + a)]] for k in range(6)]),
    ]:
        out.append((name, mk))
    return out


def smt_case(r, name, mk, a, b, with_subst):
    import z3
    from isla.language import SMTFormula, BoundVariable
    from isla.derivation_tree import DerivationTree as DT
    from isla.z3_helpers import smt_expr_to_str

    e = mk(a, b)
    case = dict(kind="smt", skel=name, a=a, b=b, subst=with_subst)
    r.evals += 1
    r.transitions += 2
    cls = lit_class(a + b)
    r.verdict(("smt", name), cls)
    try:
        var = BoundVariable("x", "<x>")
        f = SMTFormula(smt.ground_expr_open(e), var)
        if with_subst:
            f = f.substitute_expressions({var: DT("<x>", None)})
        g = pickle.loads(pickle.dumps(f))
    except CaseTimeout:
        raise
    except BaseException as ex:  # noqa
        r.viol(f"smt-pickle-raises/{common.exc_key(ex)}/{cls}", f"pickling SMTFormula {smt.to_smtlib(e)} raised {type(ex).__name__}: {str(ex)[:100]}", case)
        return
    same = False
    try:
        same = (g == f) and smt_expr_to_str(g.formula) == smt_expr_to_str(f.formula) and g.formula.sexpr() == f.formula.sexpr()
    except BaseException as ex:  # noqa
        r.viol(f"smt-compare-raises/{common.exc_key(ex)}/{cls}", f"comparing the unpickled SMTFormula {smt.to_smtlib(e)} raised {type(ex).__name__}", case)
        return
    if not same:
        r.viol(f"smt-changed-by-pickling/{cls}", f"SMTFormula {f.formula.sexpr()} came back from pickle as {g.formula.sexpr()}", case, f.formula.sexpr(), g.formula.sexpr())


def lit_class(s):
    cl = []
    if '"' in s:
        cl.append("quote")
    if "\\" in s:
        cl.append("backslash")
    if any(ord(c) < 32 for c in s):
        cl.append("control")
    if any(127 < ord(c) < 256 for c in s):
        cl.append("latin1")
    if any(ord(c) >= 256 for c in s):
        cl.append("bmp")
    return "+".join(cl) or "plain"


# ------------------------------------------------------------------ (c) CLI JSON

def cli_case(r, gname, g, t):
    from isla import cli
    from isla.derivation_tree import DerivationTree as DT
    import json

    ref = RT.with_ids(t)
    dt = RT.to_dt(ref)
    case = dict(kind="cli", g=gname, tree=tjson(ref))
    r.evals += 1
    r.transitions += 2
    try:
        js = cli.derivation_tree_to_json(dt)
        back = DT.from_parse_tree(json.loads(js))
        js2 = cli.derivation_tree_to_json(dt, pretty_print=True)
        back2 = DT.from_parse_tree(json.loads(js2))
    except BaseException as ex:  # noqa
        r.viol(f"cli-json-raises/{common.exc_key(ex)}", f"JSON round trip of {tstr(ref)!r} raised {type(ex).__name__}: {str(ex)[:100]}", case)
        return
    for b in (back, back2):
        if RT.strip_ids(RT.from_dt(b)) != RT.strip_ids(ref) or str(b) != str(dt) or b.is_open() != dt.is_open():
            r.viol("cli-json-tree-differs", f"tree read back from derivation_tree_to_json differs for {_ostr(ref)!r}", case, RT.strip_ids(ref), RT.strip_ids(RT.from_dt(b)))
            return
    r.verdict(("cli", gname), RT.is_open(ref))


def cli_pipeline_case(r, gname, g, t):
    """the tree printed by `isla parse` (stdout exactly as printed, or -o file; plain or pretty) is read back by `isla parse` as the same tree"""
    import io
    import json
    import os
    import shutil
    import tempfile
    from isla import cli
    from isla.derivation_tree import DerivationTree

    word = tstr(t)
    d = tempfile.mkdtemp(prefix="c17_")
    try:
        G = os.path.join(d, "g.py")
        with open(G, "w") as f:
            f.write("grammar = " + repr(g) + "\n")

        def run(*argv):
            out, err = io.StringIO(), io.StringIO()
            try:
                cli.main(*argv, stdout=out, stderr=err)
                code = 0
            except SystemExit as e:
                code = e.code if isinstance(e.code, int) else (0 if e.code is None else 1)
            return code, out.getvalue(), err.getvalue()

        for flags, sink in itertools.product(((), ("-p",)), ("stdout", "-o")):
            case = dict(kind="cli-pipeline", g=gname, tree=tjson(RT.with_ids(t)), flags=list(flags), sink=sink)
            r.evals += 1
            r.transitions += 2
            J1 = os.path.join(d, "t1.json")
            try:
                if sink == "stdout":
                    code, out, err = run("parse", *flags, "-c", "true", "-i", word, G)
                    with open(J1, "w", newline="") as f:
                        f.write(out)  # what `isla parse ... > t1.json` leaves
                else:
                    code, out, err = run("parse", *flags, "-c", "true", "-o", J1, "-i", word, G)
                if code != 0:
                    r.outcomes["cli-pipeline:first-parse-exit-%s" % code] += 1
                    continue
                first = json.loads(open(J1).read())
                code2, out2, err2 = run("parse", "-c", "true", G, J1)
                if code2 != 0:
                    r.viol(f"cli-pipeline/tree-not-read-back/{sink}", f"`isla parse {' '.join(flags)}` printed a tree for {word!r} ({sink}); `isla parse` on that file exits {code2}: {(out2 + err2).strip()[:100]}", case, 0, code2)
                    continue
                second = json.loads(out2)
                if second != first or str(DerivationTree.from_parse_tree(second)) != word:
                    r.viol(f"cli-pipeline/tree-differs/{sink}", f"the tree printed by `isla parse {' '.join(flags)}` for {word!r} is read back as a different tree", case, first, second)
            except BaseException as ex:  # noqa
                r.viol(f"cli-pipeline/raises/{common.exc_key(ex)}", f"CLI tree round trip for {word!r} raised {type(ex).__name__}: {str(ex)[:100]}", case)
        r.verdict(("cli-pipeline", gname), word)
    finally:
        shutil.rmtree(d, ignore_errors=True)


def chunks(tier, seed):
    out = []
    depth = 3 if tier == "quick" else 4
    for si in range(len(_seeds())):
        for op in OPS:
            out.append(dict(kind="bfs", seed=si, first=op, depth=depth))
    out.append(dict(kind="smt", tier=tier))
    out.append(dict(kind="cli", tier=tier))
    for gname in ("assgn", "tags", "list"):
        out.append(dict(kind="cli-pipeline", g=gname, tier=tier))
    return out


def run_chunk(chunk):
    import collections

    r = Result()
    if chunk["kind"] == "bfs":
        h = H(chunk["seed"])
        stats = collections.Counter()
        root = (("seed", chunk["seed"]), (chunk["first"],))

        def on_violation(hist, v):
            r.viol(v.key, f"{v.what} after history {' ; '.join(o[0] for o in hist[1:])} on seed tree {chunk['seed']} ({_ostr(RT.with_ids(h.seed)) or '<open>'})",
                   dict(kind="bfs", seed=chunk["seed"], hist=[list(o) for o in hist[1:]]), v.expected, v.observed)

        try:
            with time_cap(1200):
                seen, trans, deepest, capped = bfs.search([root], h.build, h.enabled, chunk["depth"], on_violation, stats, max_states=2000 if chunk["depth"] >= 4 else None)
                if capped:
                    r.caps["depth4_state_cap_2000_per_first_operation"] += 1
        except CaseTimeout:
            r.caps["bfs_chunk_1200s_cap"] += 1
            return r
        for k in seen:
            r.states.add(repr(k).encode())
        r.transitions += trans
        r.evals += len(seen) + stats["revisits"]
        r.verdict(("bfs", chunk["first"]), chunk["seed"])
        r.sample({"part": "bfs", "seed_tree": _ostr(RT.with_ids(h.seed)) or "<open>", "first_op": chunk["first"], "states": len(seen), "transitions": trans, "depth": chunk["depth"]}, limit=2)
        return r
    if chunk["kind"] == "smt":
        for name, mk in smt_skeletons():
            for a, b in itertools.product(LITS, repeat=2):
                if chunk["tier"] == "quick" and a != b and LITS.index(a) % 2 and LITS.index(b) % 2:
                    continue
                for with_subst in (False, True):
                    smt_case(r, name, mk, a, b, with_subst)
                r.state("smt", name, a, b)
        r.sample({"part": "smt pickling", "skeletons": [n for n, _ in smt_skeletons()], "literals": LITS})
        return r
    if chunk["kind"] == "cli-pipeline":
        gname = chunk["g"]
        ts = common.trees_of(gname, "quick")
        ts = ts[:: max(1, len(ts) // (12 if chunk["tier"] == "quick" else 60))]
        for t in ts:
            r.state("cli-pipeline", gname, t)
            cli_pipeline_case(r, gname, GR.cat(gname), t)
        r.sample({"part": "cli pipeline parse -> file -> parse", "grammar": gname, "trees": len(ts)})
        return r
    for gname in ("assgn", "null", "tags"):
        g = GR.cat(gname)
        cg = canon(g)
        from ..universe.trees import open_prefixes

        ts = common.trees_of(gname, "quick")
        for t in ts:
            r.state("cli", gname, t)
            cli_case(r, gname, g, t)
            for p, _ in list(open_prefixes(t, max_open=1))[:3]:
                cli_case(r, gname, g, p)
    r.sample({"part": "cli json", "grammars": ["assgn", "null", "tags"]})
    return r


def replay(case):
    r = Result()
    if case["kind"] == "bfs":
        h = H(case["seed"])
        hist = (("seed", case["seed"]),) + tuple(tuple(o) for o in case["hist"])
        try:
            h.build(hist)
        except Violation as v:
            return [dict(key=v.key, what=v.what, case=case, expected=v.expected, observed=v.observed)]
        return []
    if case["kind"] == "smt":
        mk = dict(smt_skeletons())[case["skel"]]
        smt_case(r, case["skel"], mk, case["a"], case["b"], case["subst"])
        return r.viols
    if case["kind"] == "cli-pipeline":
        r = Result(keep_all=True)
        cli_pipeline_case(r, case["g"], GR.cat(case["g"]), RT.strip_ids(from_tjson(case["tree"])))
        return [v for v in r.viols if v["case"]["flags"] == case["flags"] and v["case"]["sink"] == case["sink"]]
    cli_case(r, case["g"], GR.cat(case["g"]), RT.strip_ids(from_tjson(case["tree"])))
    return r.viols
