"""C19 — the isla command line honours its exit-code and output contract.

The product of command x grammar source x constraint source x input source x flags is run
in-process through isla.cli.main(*argv, stdout=..., stderr=...) with SystemExit caught; one
representative per contract class is also run as a real `python -m isla` process and must agree.
Pipelines: everything `isla solve` prints / writes is passed to `isla check`; `isla parse` output
is passed back to `isla check`.
Oracle: a contract table written from the property text (exit 0/1 by membership and the
reference semantics of the CONJUNCTION of all constraints; 65 for malformed grammar/constraint
with a message; 2 for missing grammar/input; never an exception other than SystemExit).
"""
import io
import itertools
import json
import os
import shutil
import subprocess
import sys
import tempfile

from ..ref import sem, member
from ..ref import reftree as RT
from ..ref.reftree import canon, from_dt, tstr
from ..runner import Result, time_cap, CaseTimeout
from ..universe import grammars as GR
from . import common

PROPERTY = "C19"
LEVEL = "model_checking"
RULE = (
    "check/parse: 7 grammar sources x 10 constraint sources x 11 input sources (x output flags for parse); solve: grammar x constraint x "
    "{-n, --tree, -d}; repair/mutate: 3 x 3 x 5; pipelines solve->check (stdout lines, -d files, --tree JSON) and parse->check over two "
    "grammars (one whose words end in a newline); layouts: check/parse x 2 grammar files x 2 constraint sources x 4 inputs x {all orders of the "
    "positional files, with and without a grammar-less extension file; 6 further input file names containing .py/.bnf/.isla in the middle}; one real-process run per contract class; a schema is (command, expected class); non-trivial "
    "iff at least two different exit codes were demanded for the command"
)
ASSUMPTIONS = [
    "combinations with more than one problem (e.g. malformed grammar AND missing input) accept any of the applicable codes; -i \"\" is treated as missing input by the code and accepts 2 or the regular verdict; an empty constraint file accepts 65, 2 or the unconstrained verdict",
    "in-process observation is bound to the process-level observation point by one real `python -m isla` run per contract class",
]
TASKS_PER_CHILD = 8

ASSGN_BNF = '''<start> ::= <stmt>
<stmt> ::= <assgn> " ; " <stmt> | <assgn>
<assgn> ::= <var> " := " <rhs>
<rhs> ::= <var> | <digit>
<var> ::= "x" | "y"
<digit> ::= "0" | "1"
'''
LINES_BNF = '''<start> ::= <line>
<line> ::= <word> "\\n"
<word> ::= "a" | "b" <word>
'''
C1 = ("forall", "<assgn>", "a", (("b", "<var>", "l"), ("t", " := "), ("nt", "<rhs>")), "start", ("smt", ["=", ["v", "l"], ["s", "x"]]))
C2 = ("exists", "<digit>", "d", None, "start", ("smt", ["=", ["v", "d"], ["s", "1"]]))
CUNSAT = ("and", C2, ("not", C2))

GRAMMAR_SRC = ["bnf-ok", "bnf-malformed", "bnf-empty", "grammar-opt", "py-ok", "py-no-grammar", "missing"]
CONSTR_SRC = ["file-c1", "file-unsat", "malformed", "unknown-type", "unknown-xpath-child", "empty-file", "c-once", "c-twice", "file+c", "missing"]
INPUT_SRC = ["file-valid", "file-valid-no-newline", "file-syntax-invalid", "file-violating", "file-empty", "file-json-tree", "file-json-tree-newline", "file-json-invalid-tree", "i-string", "i-empty", "two-inputs", "missing"]


class _Argv(list):
    """options first, positional files last (argparse does not accept options between positional files)"""

    def __iadd__(self, other):  # options
        self.opts.extend(other)
        return self

    def append(self, x):  # positional
        self.files.append(x)

    def __init__(self):
        super().__init__()
        self.opts, self.files = [], []

    def final(self):
        return self.opts + self.files


def build(d, gsrc, csrc, isrc, iname=None, ext=False):
    """writes files into d, returns (argv tail, description dict with grammar_ok, constraints list, input string or None, problems set);
    iname: name of the input file (relative to d, may contain a directory); ext: also pass a Python extension file without a grammar"""
    argv = _Argv()
    if iname and os.path.dirname(iname):
        os.makedirs(os.path.join(d, os.path.dirname(iname)), exist_ok=True)
    if ext:
        _w(d, "ext.py", "def predicates():\n    return set()\n")
        argv.append(os.path.join(d, "ext.py"))
    problems = set()
    iproblems = set()
    gram_ok = True
    if gsrc == "bnf-ok":
        _w(d, "g.bnf", ASSGN_BNF)
        argv.append(os.path.join(d, "g.bnf"))
    elif gsrc == "bnf-malformed":
        _w(d, "g.bnf", '<start> ::= <stmt>\n<stmt> ::= "x" |\n ::= oops')
        argv.append(os.path.join(d, "g.bnf"))
        problems.add(65)
        gram_ok = False
    elif gsrc == "bnf-empty":
        _w(d, "g.bnf", "")
        argv.append(os.path.join(d, "g.bnf"))
        problems |= {65, 2}
        gram_ok = False
    elif gsrc == "grammar-opt":
        argv += ["--grammar", ASSGN_BNF]
    elif gsrc == "py-ok":
        _w(d, "g.py", "grammar = " + repr(GR.ASSGN) + "\n")
        argv.append(os.path.join(d, "g.py"))
    elif gsrc == "py-no-grammar":
        _w(d, "g.py", "x = 1\n")
        argv.append(os.path.join(d, "g.py"))
        problems |= {65, 2}
        gram_ok = False
    else:
        problems.add(2)
        gram_ok = False
    cons = []
    c1, c2 = sem.to_isla(C1), sem.to_isla(C2)
    if csrc == "file-c1":
        _w(d, "c.isla", c1)
        argv.append(os.path.join(d, "c.isla"))
        cons = [C1]
    elif csrc == "file-unsat":
        _w(d, "c.isla", sem.to_isla(CUNSAT))
        argv.append(os.path.join(d, "c.isla"))
        cons = [CUNSAT]
    elif csrc == "malformed":
        _w(d, "c.isla", "forall <assgn> a in start: (= a")
        argv.append(os.path.join(d, "c.isla"))
        problems.add(65)
        cons = None
    elif csrc in ("unknown-type", "unknown-xpath-child"):
        # syntactically fine, but not a constraint over this grammar
        _w(d, "c.isla", 'exists <value> v in start: (= v "x")' if csrc == "unknown-type" else '<assgn>.<zz> = "A"')
        argv.append(os.path.join(d, "c.isla"))
        problems.add(65)
        cons = None
    elif csrc == "empty-file":
        _w(d, "c.isla", "")
        argv.append(os.path.join(d, "c.isla"))
        cons = "unranked"
    elif csrc == "c-once":
        argv += ["-c", c1]
        cons = [C1]
    elif csrc == "c-twice":
        argv += ["-c", c1, "-c", c2]
        cons = [C1, C2]
    elif csrc == "file+c":
        _w(d, "c.isla", c1)
        argv.append(os.path.join(d, "c.isla"))
        argv += ["-c", c2]
        cons = [C1, C2]
    else:
        cons = "missing"
    inp = None
    tree_json = lambda w: json.dumps(_parse_tree(w))
    if isrc == "file-valid":
        _w(d, (iname or "in.txt"), "x := 1\n")
        argv.append(os.path.join(d, (iname or "in.txt")))
        inp = "x := 1"
    elif isrc == "file-valid-no-newline":
        _w(d, (iname or "in.txt"), "x := 1")
        argv.append(os.path.join(d, (iname or "in.txt")))
        inp = "x := 1"
    elif isrc == "file-syntax-invalid":
        _w(d, (iname or "in.txt"), "x := \n")
        argv.append(os.path.join(d, (iname or "in.txt")))
        inp = "x := "
    elif isrc == "file-violating":
        _w(d, (iname or "in.txt"), "y := 0\n")
        argv.append(os.path.join(d, (iname or "in.txt")))
        inp = "y := 0"
    elif isrc == "file-empty":
        _w(d, (iname or "in.txt"), "")
        argv.append(os.path.join(d, (iname or "in.txt")))
        inp = ""
    elif isrc == "file-json-tree":
        _w(d, (iname or "in.json"), tree_json("x := 1 ; x := 0"))
        argv.append(os.path.join(d, (iname or "in.json")))
        inp = "x := 1 ; x := 0"
    elif isrc == "file-json-tree-newline":  # what `isla solve --tree > in.json` or `isla parse > in.json` leaves
        _w(d, (iname or "in.json"), tree_json("x := 1 ; x := 0") + "\n")
        argv.append(os.path.join(d, (iname or "in.json")))
        inp = "x := 1 ; x := 0"
    elif isrc == "file-json-invalid-tree":
        _w(d, (iname or "in.json"), json.dumps(["<start>", [["<stmt>", [["<var>", [["x", []]]]]]]]))
        argv.append(os.path.join(d, (iname or "in.json")))
        inp = "@invalid-tree"
    elif isrc == "i-string":
        argv += ["-i", "x := 0 ; x := 1"]
        inp = "x := 0 ; x := 1"
    elif isrc == "i-empty":
        argv += ["-i", ""]
        inp = "@i-empty"
    elif isrc == "two-inputs":
        _w(d, (iname or "in.txt"), "x := 1\n")
        _w(d, "in2.txt", "x := 0\n")
        argv.append(os.path.join(d, (iname or "in.txt")))
        argv.append(os.path.join(d, "in2.txt"))
        iproblems.add(2)
    else:
        iproblems.add(2)
    return argv.final(), dict(gram_ok=gram_ok, cons=cons, inp=inp, problems=problems | iproblems, gproblems=set(problems))


def _parse_tree(w):
    from isla.parser import EarleyParser

    return next(EarleyParser(GR.ASSGN).parse(w))


def _w(d, name, content):
    with open(os.path.join(d, name), "w", encoding="utf-8", newline="") as f:
        f.write(content)


def expected_check(desc, command):
    """set of acceptable exit codes for check/parse"""
    probs = set(desc["problems"])
    cons = desc["cons"]
    if cons == "missing":
        probs.add(2)
    acc = set()
    inp = desc["inp"]
    if cons == "unranked":
        acc |= {65, 2}
        cons = []
    if inp == "@i-empty":
        acc.add(2)
        inp = None
        probs.add(2)
    if probs:
        return probs | acc
    if cons is None:
        return {65}
    cg = canon(GR.ASSGN)
    if inp == "@invalid-tree":
        return {1} | acc
    ok = member.member(cg, "<start>", inp)
    if ok:
        from isla.parser import EarleyParser
        from isla.derivation_tree import DerivationTree as DT

        t = from_dt(DT.from_parse_tree(next(EarleyParser(GR.ASSGN).parse(inp))))
        for c in cons:
            v = sem.sat(cg, t, c)
            if v is False:
                ok = False
    return ({0} if ok else {1}) | acc


def run_cli(argv, timeout=60):
    from isla import cli

    out, err = io.StringIO(), io.StringIO()
    code = None
    exc = None
    try:
        with time_cap(timeout):
            cli.main(*argv, stdout=out, stderr=err)
        code = 0
    except SystemExit as e:
        code = e.code if isinstance(e.code, int) else (0 if e.code is None else 1)
    except CaseTimeout:
        code = "cap"
    except BaseException as e:  # noqa
        exc = e
    return code, out.getvalue(), err.getvalue(), exc


def judge(r, command, argv, got, acceptable, what, case):
    code, out, err, exc = got
    r.evals += 1
    r.transitions += 1
    if code == "cap":
        r.caps["cli_60s_cap"] += 1
        return
    if exc is not None:
        r.viol(f"{command}/uncaught-exception/{common.exc_key(exc)}", f"isla {what}: uncaught {type(exc).__name__}: {str(exc)[:100]}", case, sorted(acceptable), type(exc).__name__)
        return
    r.verdict((command, "exit-code"), code)
    r.outcomes[f"{command}:{code}"] += 1
    if code not in acceptable:
        r.viol(f"{command}/exit-{code}-expected-{'-or-'.join(map(str, sorted(acceptable)))}", f"isla {what}: exit code {code}, contract says {sorted(acceptable)}; stdout {out[:80]!r} stderr {err[:120]!r}", case, sorted(acceptable), code)
        return
    if code == 65 and not err.strip():
        r.viol(f"{command}/exit-65-without-message", f"isla {what}: exit 65 but nothing on stderr", case)


def combo_chunk(r, command, combos, tier):
    for gsrc, csrc, isrc, flags in combos:
        d = tempfile.mkdtemp(prefix="c19_")
        try:
            tail, desc = build(d, gsrc, csrc, isrc)
            argv = [command] + list(flags) + tail
            if "-o" in flags:
                argv[argv.index("-o") + 1] = os.path.join(d, "out.json")
            if "-d" in flags:
                os.mkdir(os.path.join(d, "outdir"))
                argv[argv.index("-d") + 1] = os.path.join(d, "outdir")
            what = f"{command} {' '.join(flags)} [grammar={gsrc}, constraint={csrc}, input={isrc}]"
            case = dict(kind="combo", command=command, g=gsrc, c=csrc, i=isrc, flags=list(flags))
            r.state(command, gsrc, csrc, isrc, flags)
            if command in ("check", "parse"):
                acc = expected_check(desc, command)
            elif command == "solve":
                probs = set(desc["gproblems"])  # solve needs no input and no constraint
                if desc["cons"] is None:
                    probs.add(65)
                acc = probs or {0, 1}
                if desc["cons"] == "unranked":
                    acc = acc | {65, 0, 1}
            else:  # repair / mutate
                acc = expected_check(desc, command)
                if acc == {0} or acc == {1}:
                    acc = {0, 1}
            got = run_cli(argv)
            judge(r, command, argv, got, acc, what, case)
        finally:
            shutil.rmtree(d, ignore_errors=True)


def combos_for(command, tier):
    if command in ("check", "parse"):
        flagsets = [()] if command == "check" else [(), ("-p",), ("-o", "OUT")]
        out = []
        for g, c, i in itertools.product(GRAMMAR_SRC, CONSTR_SRC, INPUT_SRC):
            for fl in (flagsets if (g in ("bnf-ok", "grammar-opt") and c in ("file-c1", "c-twice")) else flagsets[:1]):
                out.append((g, c, i, fl))
        return out
    if command == "solve":
        out = []
        for g, c in itertools.product(GRAMMAR_SRC, CONSTR_SRC):
            for fl in (("-n", "2", "-t", "10"), ("-n", "2", "-t", "10", "--tree"), ("-n", "2", "-t", "10", "-d", "DIR")):
                if fl != ("-n", "2", "-t", "10") and not (g in ("bnf-ok", "py-ok") and c in ("file-c1", "c-twice", "missing")):
                    continue
                out.append((g, c, "missing", fl))
        return out
    out = []
    for g, c, i in itertools.product(["bnf-ok", "bnf-malformed", "missing"], ["file-c1", "malformed", "missing"], ["file-valid", "file-violating", "file-empty", "i-string", "missing"]):
        out.append((g, c, i, ()))
    return out


def pipeline_chunk(r, which, tier):
    """solve -> check and parse -> check"""
    gram = ASSGN_BNF if which == "assgn" else LINES_BNF
    cons = sem.to_isla(C1) if which == "assgn" else 'str.len(<line>) >= 3'
    d = tempfile.mkdtemp(prefix="c19p_")
    try:
        _w(d, "g.bnf", gram)
        _w(d, "c.isla", cons)
        G, Cf = os.path.join(d, "g.bnf"), os.path.join(d, "c.isla")
        # 1. stdout -> file exactly as printed (only meaningful when a word cannot contain the line separator twice)
        code, out, err, exc = run_cli(["solve", "-n", "4", "-t", "20", G, Cf])
        case = dict(kind="pipeline", which=which, step="solve")
        if exc is not None or code not in (0,):
            judge(r, "solve", [], (code, out, err, exc), {0}, f"solve -n 4 ({which})", case)
            return
        if which == "assgn":
            words = out.split("\n")[:-1]
        else:
            # every printed word ends with "\n" and print() adds one more
            words = [w + "\n" for w in out.split("\n\n")[:-1]]
        r.extra["pipeline_solutions"] += len(words)
        for k, w in enumerate(words):
            _w(d, f"sol{k}.txt", w + "\n")  # what `isla solve > file` leaves for a single solution
            got = run_cli(["check", G, Cf, os.path.join(d, f"sol{k}.txt")])
            judge(r, "check", [], got, {0}, f"check on the output of solve ({w!r} written to a file as printed) [{which}]", dict(kind="pipeline", which=which, step="stdout->check", w=w))
            if "\n" not in w:
                got = run_cli(["check", G, Cf, "-i", w])
                judge(r, "check", [], got, {0}, f"check -i on the output of solve ({w!r}) [{which}]", dict(kind="pipeline", which=which, step="stdout->check -i", w=w))
        # 2. solve -d
        os.mkdir(os.path.join(d, "o"))
        code, out, err, exc = run_cli(["solve", "-n", "3", "-t", "20", "-d", os.path.join(d, "o"), G, Cf])
        for fn in sorted(os.listdir(os.path.join(d, "o"))):
            got = run_cli(["check", G, Cf, os.path.join(d, "o", fn)])
            content = open(os.path.join(d, "o", fn), encoding="utf-8", newline="").read()
            judge(r, "check", [], got, {0}, f"check on a file written by solve -d ({content!r}) [{which}]", dict(kind="pipeline", which=which, step="solve -d->check", w=content))
        # 3. solve --tree -d
        os.mkdir(os.path.join(d, "t"))
        run_cli(["solve", "-n", "3", "-t", "20", "--tree", "-d", os.path.join(d, "t"), G, Cf])
        for fn in sorted(os.listdir(os.path.join(d, "t"))):
            got = run_cli(["check", G, Cf, os.path.join(d, "t", fn)])
            judge(r, "check", [], got, {0}, f"check on a JSON tree written by solve --tree -d [{which}]", dict(kind="pipeline", which=which, step="solve --tree->check", w=fn))
        # 4. parse -> check
        for k, w in enumerate(words[:3]):
            if "\n" in w and which == "assgn":
                continue
            src = os.path.join(d, f"sol{k}.txt")
            code, out, err, exc = run_cli(["parse", G, Cf, src, "-o", os.path.join(d, f"p{k}.json")])
            if exc is not None or code != 0:
                judge(r, "parse", [], (code, out, err, exc), {0}, f"parse on the output of solve ({w!r}) [{which}]", dict(kind="pipeline", which=which, step="parse", w=w))
                continue
            got = run_cli(["check", G, Cf, os.path.join(d, f"p{k}.json")])
            judge(r, "check", [], got, {0}, f"check on the JSON tree emitted by parse for {w!r} [{which}]", dict(kind="pipeline", which=which, step="parse->check", w=w))
    finally:
        shutil.rmtree(d, ignore_errors=True)
    r.sample({"part": "pipelines", "grammar": which})


INAMES = ["in.txt", "in", "in.py.txt", "in.bnf.txt", "in.isla.txt", "out.isla.d/0.txt", "a.py.d/in"]


def layouts_for(tier):
    """(command, grammar, constraint, input, input file name, extension file?, order): order is a permutation of the positional files"""
    out = []
    for command, g, c, i in itertools.product(("check", "parse"), ("bnf-ok", "py-ok"), ("file-c1", "file+c"), ("file-valid", "file-violating", "file-syntax-invalid", "file-json-tree-newline")):
        for ext in (False, True):
            n = 3 + ext
            for perm in itertools.permutations(range(n)):
                out.append((command, g, c, i, "in.txt", ext, perm))
        for iname in INAMES[1:]:
            out.append((command, g, c, i, iname, False, (0, 1, 2)))
            out.append((command, g, c, i, iname, False, (2, 1, 0)))
    return out


def layout_chunk(r, layouts):
    """the verdict of check/parse does not depend on the order of the positional files, on the name of the input file (unless it ends in
    .bnf/.isla/.py) or on an additional extension file that defines no grammar"""
    for command, g, c, i, iname, ext, perm in layouts:
        d = tempfile.mkdtemp(prefix="c19l_")
        try:
            tail, desc = build(d, g, c, i, iname=iname, ext=ext)
            files = [x for x in tail if x.startswith(d + os.sep)]
            opts = [x for x in tail if not x.startswith(d + os.sep)]
            assert len(files) == len(perm), (files, perm)
            argv = [command] + opts + [files[k] for k in perm]
            acc = expected_check(desc, command)
            order = ",".join(os.path.relpath(files[k], d) for k in perm)
            r.state(command, g, c, i, iname, ext, perm)
            judge(r, command, argv, run_cli(argv), acc, f"{command} [grammar={g}, constraint={c}, input={i}; files in the order {order}]",
                  dict(kind="layout", command=command, g=g, c=c, i=i, iname=iname, ext=ext, perm=list(perm)))
        finally:
            shutil.rmtree(d, ignore_errors=True)


REAL = [
    ("check", "bnf-ok", "file-c1", "file-valid", ()), ("check", "bnf-ok", "c-twice", "file-violating", ()), ("check", "bnf-ok", "file-c1", "file-syntax-invalid", ()),
    ("check", "bnf-malformed", "file-c1", "file-valid", ()), ("check", "bnf-ok", "malformed", "file-valid", ()), ("check", "missing", "file-c1", "file-valid", ()),
    ("check", "bnf-ok", "file-c1", "missing", ()), ("check", "bnf-ok", "file-c1", "file-empty", ()), ("check", "bnf-ok", "file-c1", "file-json-tree", ()),
    ("parse", "bnf-ok", "file-c1", "file-valid", ("-p",)), ("solve", "bnf-ok", "file-c1", "missing", ("-n", "2", "-t", "10")), ("solve", "bnf-ok", "malformed", "missing", ("-n", "2", "-t", "10")),
]


def real_chunk(r):
    """the same combination in-process and as a real process: exit status must agree, no traceback on stderr"""
    for command, gsrc, csrc, isrc, flags in REAL:
        d = tempfile.mkdtemp(prefix="c19r_")
        try:
            tail, desc = build(d, gsrc, csrc, isrc)
            argv = [command] + list(flags) + tail
            got = run_cli(argv)
            env = dict(os.environ)
            p = subprocess.run([sys.executable, "-m", "isla"] + argv, capture_output=True, text=True, timeout=300, env=env)
            r.evals += 1
            r.transitions += 1
            case = dict(kind="real", command=command, g=gsrc, c=csrc, i=isrc, flags=list(flags))
            r.verdict(("real", command), p.returncode)
            if "Traceback (most recent call last)" in p.stderr:
                r.viol(f"{command}/real-process-traceback", f"python -m isla {command} [{gsrc},{csrc},{isrc}] printed a traceback: {p.stderr.strip().splitlines()[-1][:120]}", case)
            elif got[3] is None and got[0] != p.returncode:
                r.viol(f"{command}/in-process-and-real-process-disagree", f"isla {command} [{gsrc},{csrc},{isrc}]: in-process exit {got[0]}, real process exit {p.returncode}", case, got[0], p.returncode)
        finally:
            shutil.rmtree(d, ignore_errors=True)
    r.sample({"part": "real processes", "runs": len(REAL)})


def chunks(tier, seed):
    out = []
    for command in ("check", "parse", "solve", "repair", "mutate"):
        C = combos_for(command, tier)
        per = 40 if command in ("check", "parse") else 8
        for i in range(0, len(C), per):
            out.append(dict(kind="combo", command=command, lo=i, hi=min(len(C), i + per), tier=tier))
    L = layouts_for(tier)
    for i in range(0, len(L), 60):
        out.append(dict(kind="layout", lo=i, hi=min(len(L), i + 60), tier=tier))
    out.append(dict(kind="pipeline", which="assgn", tier=tier))
    out.append(dict(kind="pipeline", which="lines", tier=tier))
    out.append(dict(kind="real", tier=tier))
    return out


def run_chunk(chunk):
    r = Result()
    if chunk["kind"] == "combo":
        combo_chunk(r, chunk["command"], combos_for(chunk["command"], chunk["tier"])[chunk["lo"]:chunk["hi"]], chunk["tier"])
        r.sample({"part": "combinations", "command": chunk["command"], "combinations": chunk["hi"] - chunk["lo"]}, limit=1)
    elif chunk["kind"] == "layout":
        layout_chunk(r, layouts_for(chunk["tier"])[chunk["lo"]:chunk["hi"]])
        r.sample({"part": "file order / file name / extension file layouts", "layouts": chunk["hi"] - chunk["lo"]}, limit=1)
    elif chunk["kind"] == "pipeline":
        pipeline_chunk(r, chunk["which"], chunk["tier"])
    else:
        real_chunk(r)
    return r


def replay(case):
    r = Result(keep_all=True)
    if case["kind"] == "combo":
        combo_chunk(r, case["command"], [(case["g"], case["c"], case["i"], tuple(case["flags"]))], "quick")
        return r.viols
    if case["kind"] == "layout":
        layout_chunk(r, [(case["command"], case["g"], case["c"], case["i"], case["iname"], case["ext"], tuple(case["perm"]))])
        return r.viols
    if case["kind"] == "pipeline":
        pipeline_chunk(r, case["which"], "quick")
        return [v for v in r.viols if v["case"].get("step") == case.get("step")][:1]
    real_chunk(r)
    return [v for v in r.viols if v["case"]["command"] == case["command"] and v["case"]["g"] == case["g"] and v["case"]["c"] == case["c"] and v["case"]["i"] == case["i"]]
