"""C11 — BNF grammars survive printing and re-parsing with the same language.

Grammar shapes (generated one-/two-nonterminal families, empty alternatives included) whose
letters a/b are replaced by terminal strings over an alphabet of characters that need escaping;
g' = parse_bnf(unparse_grammar(g)).  No '<' in any terminal: g' must be identical.  Otherwise the
bounded languages of every nonterminal of g must be equal in g and g'.
"""
import itertools

from ..ref import member
from ..ref.reftree import canon, is_nt, RE_NT
from ..runner import Result, time_cap, CaseTimeout
from ..universe import grammars as GR
from . import common

PROPERTY = "C11"
LEVEL = "model_checking"
RULE = (
    "grammar shapes: all 62 of family 1nt2 and every 60th (thorough 12th) of family 2nt2 x terminal strings of length 1-2 over "
    "{a \" \\ newline tab CR NUL \\x01 \\x0b \\x0c \\x7f < > space | : = e-acute n x 4 1} substituted for the letter a (letter b takes three fixed "
    "strings), plus hand-written shortcut inputs (placeholder text, <langle>/<langle_0> already defined in both orders, '<' next to "
    "nonterminals); a schema is (shape family, class of the substituted terminal); non-trivial iff both identical and merely "
    "language-equal round trips occurred"
)
ASSUMPTIONS = [
    "a dict grammar cannot contain a terminal that itself looks like <name>: such substitutions are skipped (they denote a nonterminal)",
    "language equality is decided on all words up to length 6 by the membership fixpoint of mc/ref/member.py",
]
TASKS_PER_CHILD = 6

SIGMA = ["a", '"', "\\", "\n", "\t", "\r", "\x00", "\x01", "\x0b", "\x0c", "\x7f", "<", ">", " ", "|", ":", "=", "é", "n", "x", "4", "1"]
B_STRINGS = ["b", "\\n", '"<']


def terminals(tier):
    one = list(SIGMA)
    two = ["".join(p) for p in itertools.product(SIGMA, repeat=2)]
    if tier == "quick":
        two = two[::3]
    return one + two


def shapes(tier):
    out = [("1nt2", i, g) for i, g in enumerate(GR.generated("1nt2"))]
    step = 60 if tier == "quick" else 12
    out += [("2nt2", i, g) for i, g in enumerate(GR.generated("2nt2")) if i % step == 0]
    if tier == "quick":
        out = out[::3]
    return out


def substitute(g, ta, tb):
    """replace the letters a / b of a generated grammar by terminal strings; None if the result would
    create or destroy nonterminal-looking text"""
    res = {}
    for nt, alts in g.items():
        new_alts = []
        for alt in alts:
            parts = [p for p in RE_NT.split(alt) if p]
            want = []
            text = ""
            for p in parts:
                if is_nt(p):
                    want.append(p)
                    text += p
                else:
                    text += "".join(ta if ch == "a" else tb if ch == "b" else ch for ch in p)
            if RE_NT.findall(text) != want:
                return None
            new_alts.append(text)
        if len(set(new_alts)) != len(new_alts):
            return None
        res[nt] = new_alts
    return res


SPECIAL = [
    ("placeholder-text", {"<start>": ["<A>"], "<A>": ["$$BESC$$", "a"]}),
    ("langle-defined", {"<start>": ["<A>"], "<A>": ["x < y<langle>", "x = y"], "<langle>": ["L"]}),
    ("langle-and-langle_0-defined", {"<start>": ["<A>"], "<A>": ["x < y<langle><langle_0>"], "<langle>": ["L"], "<langle_0>": ["M"]}),
    ("langle_0-before-langle", {"<start>": ["<A>"], "<A>": ["x < y<langle_0><langle>"], "<langle_0>": ["M"], "<langle>": ["L"]}),
    ("lt-next-to-nonterminal", {"<start>": ["<A>"], "<A>": ["<<B>></<B>>"], "<B>": ["a", "b"]}),
    ("only-lt", {"<start>": ["<A>"], "<A>": ["<", "<<", "a<"]}),
    ("backslash-x-text", {"<start>": ["<A>"], "<A>": ["\\x41", "\\\\n", "\\\""]}),
    ("all-controls", {"<start>": ["<A>"], "<A>": ["".join(chr(i) for i in range(0, 32)), "\x7f\x80\xff"]}),
    ("empty-alternatives", {"<start>": ["<A>"], "<A>": ["", "<B>"], "<B>": ["", "b<A>"]}),
]


def chunks(tier, seed):
    S = shapes(tier)
    out = [dict(kind="gen", lo=i, hi=min(len(S), i + 2), tier=tier) for i in range(0, len(S), 2)]
    out.append(dict(kind="special", tier=tier))
    return out


def term_class(t):
    cl = []
    if "<" in t:
        cl.append("lt")
    if any(c in t for c in '"\\'):
        cl.append("quote-or-backslash")
    if any(ord(c) < 32 or ord(c) == 127 for c in t):
        cl.append("control")
    if any(ord(c) > 127 for c in t):
        cl.append("non-ascii")
    return "+".join(cl) or "plain"


def roundtrip(r, g, tag, cls):
    from isla.language import parse_bnf, unparse_grammar

    case = dict(g=g, tag=tag)
    r.evals += 1
    r.transitions += 2
    try:
        with time_cap(20):
            text = unparse_grammar(g)
            g2 = parse_bnf(text)
    except CaseTimeout:
        r.caps["roundtrip_20s_cap"] += 1
        return
    except BaseException as e:  # noqa
        r.viol(f"raises/{common.exc_key(e)}/{cls}", f"round trip of {g} raised {type(e).__name__}: {str(e)[:100]}", case, "grammar", type(e).__name__)
        return
    has_lt = any("<" in s for alts in canon(g).values() for alt in alts for s in alt if not is_nt(s))
    if not has_lt:
        r.verdict((tag.split(":")[0], "identity-required"), g2 == g)
        if g2 != g:
            r.viol(f"not-identical/{cls}", f"no terminal contains '<' but parse_bnf(unparse_grammar(g)) = {g2} differs from g = {g}", case, g, g2)
        return
    # language equality for every nonterminal of the original
    cg, cg2 = canon(g), canon(g2)
    r.verdict((tag.split(":")[0], "identity-required"), "language-only")
    missing = [nt for nt in cg if nt not in cg2]
    if missing:
        r.viol(f"nonterminal-lost/{cls}", f"nonterminals {missing} of {g} are not defined after the round trip: {g2}", case, list(cg), list(cg2))
        return
    l1 = member.bounded_lang(cg, 6)
    try:
        l2 = member.bounded_lang(cg2, 6)
    except KeyError as e:
        r.viol(f"undefined-nonterminal-after-roundtrip/{cls}", f"round trip of {g} gives {g2}, which uses undefined nonterminal {e}", case)
        return
    for nt in cg:
        if l1[nt] != l2[nt]:
            diff = sorted(l1[nt] ^ l2[nt], key=lambda w: (len(w), w))[:4]
            r.viol(f"language-changed/{cls}", f"language of {nt} changed by the round trip of {g} -> {g2}: differs on {diff}", case, sorted(l1[nt])[:6], sorted(l2[nt])[:6])
            return


def run_chunk(chunk):
    r = Result()
    tier = chunk["tier"]
    if chunk["kind"] == "special":
        for tag, g in SPECIAL:
            r.state(tag)
            roundtrip(r, g, "special:" + tag, tag)
        r.sample({"part": "shortcut inputs", "grammars": [t for t, _ in SPECIAL]})
        return r
    T = terminals(tier)
    for fam, i, g in shapes(tier)[chunk["lo"]:chunk["hi"]]:
        r.state(fam, i)
        n = 0
        for ta in T:
            for tb in (B_STRINGS if tier == "thorough" else B_STRINGS[:1] if len(ta) == 2 else B_STRINGS):
                g2 = substitute(g, ta, tb)
                if g2 is None:
                    r.outcomes["skipped-would-form-nonterminal"] += 1
                    continue
                n += 1
                roundtrip(r, g2, f"{fam}:{i}", term_class(ta + tb))
        r.sample({"shape": g, "terminal_substitutions": n}, limit=2)
    return r


def replay(case):
    r = Result()
    g = case["g"]
    terms = "".join(s for alts in canon(g).values() for alt in alts for s in alt if not is_nt(s))
    cls = case["tag"].split(":", 1)[1] if case["tag"].startswith("special:") else term_class(terms)
    roundtrip(r, g, case["tag"], cls)
    return r.viols
