"""C09 — negation and normal-form rewrites preserve meaning; none of them raises.

"Programs" are formula ASTs: closed base formulas of the typed universe (parsed), combined into
composites both through the simplifying combinators (&, |, -) and as raw n-ary
ConjunctiveFormula / DisjunctiveFormula objects (2-3 arguments, nested to depth 2), plus
quantifiers over n-ary bodies.  Every composite is pushed through every rewrite and evaluated on
every closed tree; the expected verdict comes from the reference semantics of the composite's
own structure (truth table over the reference verdicts of its base formulas), NOT from
evaluate() of the un-rewritten formula.
"""
import itertools

from ..ref import sem
from ..ref.reftree import canon, with_ids, to_dt, tstr, tjson, from_tjson
from ..runner import Result, time_cap, CaseTimeout
from ..universe import grammars as GR
from . import common

PROPERTY = "C09"
LEVEL = "model_checking"
RULE = (
    "grammars assgn/list x composites over a schema-stratified core of closed base formulas: shapes {F, F&G, F|G, (F&G)&H, raw "
    "Conj(F,G,H), Disj(F,G,H), Conj(Disj(F,G),H), Conj(Disj(F,G),Disj(H,F)), Conj(Disj(F,G),F,G), Disj(Conj(F,G),H), Neg(Conj(F,G,H)), "
    "Neg(Neg(F)), quantifier over a raw 3-ary conjunction/disjunction of atoms, F combined with its dual quantifier over the same variable and body} x rewrites {identity, -, NNF, NNF of -, DNF(NNF) deep and "
    "shallow, DNF directly on composites already in NNF, ensure_unique_bound_variables, & and | with a further formula} x all closed trees; quantifier bodies built through "
    "the combinators &, |, - from {p, not p, s, not s} in every (l1 op l2) op l3 / l1 op (l2 op l3) arrangement (`not` also as a raw node); "
    "operands with colliding bound names {v, v_0, v_1} incl. match-expression variables, raw and nested, under every rewrite; a schema is (shape, rewrite, grammar); "
    "non-trivial iff both verdicts are demanded"
)
ASSUMPTIONS = [
    "expected verdicts: reference semantics (mc/ref/sem.py) of the composite's structure; EITHER accepts anything but an exception",
    "base formulas use distinct variable names per type (one name, one type)",
]
TASKS_PER_CHILD = 4

GRAMS = ["assgn", "list"]


def _base(name, tier):
    """closed base formulas (own AST), stratified by schema"""
    F = [f for f in common.formulas_of(name, "small") if f[0] in ("forall", "exists", "not", "and", "or", "exists_int", "forall_int")]
    seen = set()
    out = []
    for f in F:
        k = sem.schema(f)
        if k in seen:
            continue
        seen.add(k)
        out.append(f)
    step = max(1, len(out) // (14 if tier == "quick" else 20))
    return out[::step][: (14 if tier == "quick" else 20)]


SHAPES = ["F", "F&G", "F|G", "(F&G)&H", "Conj3", "Disj3", "Conj(Disj,H)", "Conj(Disj,Disj)", "Conj(Disj,F,G)", "Disj(Conj,H)", "NegConj3", "NegNeg"]
REWRITES = ["id", "neg", "nnf", "nnf_neg", "dnf", "dnf_shallow", "dnf_direct", "uniq", "and_x", "or_x"]


def rename_apart(f, tag):
    """make the bound variables of f unique by suffixing (one name, one type per formula)"""
    from ..universe.formulas import rename

    names = set()

    def collect(g):
        k = g[0]
        if k in ("forall", "exists"):
            names.add(g[2])
            if g[3]:
                for e in g[3]:
                    if e[0] == "b":
                        names.add(e[2])
            collect(g[5])
        elif k in ("forall_int", "exists_int"):
            names.add(g[1])
            collect(g[2])
        elif k in ("not", "and", "or"):
            for h in g[1:]:
                collect(h)

    collect(f)
    return rename(f, {n: f"{n}{tag}" for n in names})


def composite_ast(shape, f, g, h):
    """own AST of the composite (the reference evaluates this)"""
    if shape == "F":
        return f
    if shape == "F&G":
        return ("and", f, g)
    if shape == "F|G":
        return ("or", f, g)
    if shape == "(F&G)&H":
        return ("and", ("and", f, g), h)
    if shape == "Conj3":
        return ("and", f, g, h)
    if shape == "Disj3":
        return ("or", f, g, h)
    if shape == "Conj(Disj,H)":
        return ("and", ("or", f, g), h)
    if shape == "Conj(Disj,Disj)":
        return ("and", ("or", f, g), ("or", h, f))
    if shape == "Conj(Disj,F,G)":
        return ("and", ("or", f, g), f, g)
    if shape == "Disj(Conj,H)":
        return ("or", ("and", f, g), h)
    if shape == "NegConj3":
        return ("not", ("and", f, g, h))
    if shape == "NegNeg":
        return ("not", ("not", f))
    raise KeyError(shape)


def composite_isla(shape, F, G, H):
    """the ISLa object: '&'/'|' shapes through the combinators, the others as raw n-ary nodes"""
    from isla.language import ConjunctiveFormula as C, DisjunctiveFormula as D, NegatedFormula as N

    if shape == "F":
        return F
    if shape == "F&G":
        return F & G
    if shape == "F|G":
        return F | G
    if shape == "(F&G)&H":
        return (F & G) & H
    if shape == "Conj3":
        return C(F, G, H)
    if shape == "Disj3":
        return D(F, G, H)
    if shape == "Conj(Disj,H)":
        return C(D(F, G), H)
    if shape == "Conj(Disj,Disj)":
        return C(D(F, G), D(H, F))
    if shape == "Conj(Disj,F,G)":
        return C(D(F, G), F, G)
    if shape == "Disj(Conj,H)":
        return D(C(F, G), H)
    if shape == "NegConj3":
        return N(C(F, G, H))
    if shape == "NegNeg":
        return N(N(F))
    raise KeyError(shape)


def apply_rewrite(rw, comp, extra):
    from isla import language as L

    if rw == "id":
        return comp, "same"
    if rw == "neg":
        return -comp, "not"
    if rw == "nnf":
        return L.convert_to_nnf(comp), "same"
    if rw == "nnf_neg":
        return L.convert_to_nnf(-comp), "not"
    if rw == "dnf":
        return L.convert_to_dnf(L.convert_to_nnf(comp)), "same"
    if rw == "dnf_shallow":
        return L.convert_to_dnf(L.convert_to_nnf(comp), deep=False), "same"
    if rw == "dnf_direct":
        # DNF without a preceding NNF step, for composites that already are in NNF (its documented precondition)
        if _has_neg_of_combinator(comp):
            return L.convert_to_dnf(L.convert_to_nnf(comp)), "same"
        return L.convert_to_dnf(comp), "same"
    if rw == "uniq":
        return L.ensure_unique_bound_variables(comp), "same"
    if rw == "and_x":
        return comp & extra, "and"
    if rw == "or_x":
        return comp | extra, "or"
    raise KeyError(rw)


def _has_neg_of_combinator(f):
    from isla import language as L

    if isinstance(f, L.NegatedFormula) and isinstance(f.args[0], (L.PropositionalCombinator, L.QuantifiedFormula, L.NumericQuantifiedFormula)):
        return True
    if isinstance(f, L.PropositionalCombinator):
        return any(_has_neg_of_combinator(a) for a in f.args)
    if isinstance(f, (L.QuantifiedFormula, L.NumericQuantifiedFormula)):
        return _has_neg_of_combinator(f.inner_formula)
    return False


def expect(rel, v, vx):
    if rel == "same":
        return v
    if rel == "not":
        return sem.t_not(v)
    if rel == "and":
        return sem.t_and([v, vx])
    if rel == "or":
        return sem.t_or([v, vx])


def chunks(tier, seed):
    out = []
    for name in GRAMS:
        n = len(_base(name, tier))
        triples = _triples(n, tier)
        per = 10 if tier == "quick" else 12
        for i in range(0, len(triples), per):
            out.append(dict(g=name, lo=i, hi=min(len(triples), i + per), tier=tier, kind="prop"))
        out.append(dict(g=name, tier=tier, kind="qbody"))
        out.append(dict(g=name, tier=tier, kind="dual"))
        for lo in range(0, 1024, 64):
            out.append(dict(g=name, tier=tier, kind="comb", lo=lo, hi=lo + 64))
        if name == "assgn":
            for lo in range(0, 80, 20):
                out.append(dict(g=name, tier=tier, kind="names", lo=lo, hi=lo + 20))
    return out


def _triples(n, tier):
    """index triples (i, j, k): all pairs with a rotating third (quick) / more thirds (thorough)"""
    out = []
    for i in range(n):
        for j in range(n):
            if i == j:
                continue
            ks = [(i + j + 1) % n] if tier == "quick" else [(i + j + 1) % n, (i * 3 + j + 2) % n]
            for k in ks:
                out.append((i, j, k))
    if tier == "quick":
        out = out[::2]
    return out


def _trees(name, tier):
    ts = common.trees_of(name, "quick")
    cap = 24 if tier == "quick" else 40
    step = max(1, len(ts) // cap)
    return ts[::step][:cap]


def run_case(r, name, g, cg, trees, base_pair, shape, idx, rws):
    """base_pair: list of (ast, parsed) for F, G, H, X"""
    from isla.evaluator import evaluate

    (f, F), (gg_, G), (h, H), (x, X) = base_pair
    ast = composite_ast(shape, f, gg_, h)
    case0 = dict(g=name, shape=shape, idx=list(idx))
    try:
        comp = composite_isla(shape, F, G, H)
    except CaseTimeout:
        raise
    except Exception as e:  # noqa
        r.viol(f"construct/{shape}/{common.exc_key(e)}", f"building {shape} raised {type(e).__name__}: {str(e)[:100]}", dict(case0, rw="id", tree=None))
        r.evals += 1
        return
    for rw in rws:
        try:
            rewritten, rel = apply_rewrite(rw, comp, X)
        except CaseTimeout:
            raise
        except Exception as e:  # noqa
            r.evals += 1
            r.viol(f"rewrite-raises/{rw}/{type(e).__name__}/{shape}", f"{rw} on {shape} of {[sem.to_isla(q)[:60] for q in (f, gg_, h)]} raised {type(e).__name__}: {str(e)[:100]}",
                   dict(case0, rw=rw, tree=None), "no exception", type(e).__name__)
            continue
        for root, dt, ctx in trees:
            v = sem.sat_ctx(ctx, ast)
            vx = sem.sat_ctx(ctx, x) if rel in ("and", "or") else None
            exp = expect(rel, v, vx)
            try:
                got = common.tv(evaluate(rewritten, dt, g))
            except CaseTimeout:
                raise
            except Exception as e:  # noqa
                got = "EXC:" + common.exc_key(e)
            r.evals += 1
            r.transitions += 1
            if exp is sem.EITHER:
                if isinstance(got, str) and got.startswith("EXC"):
                    r.viol(f"evaluate-raises/{rw}/{shape}/{got[4:]}", f"evaluating {rw}({shape}) raised {got}", dict(case0, rw=rw, tree=tjson(root)), "verdict", got)
                continue
            r.verdict((name, shape, rw), exp)
            if got != exp:
                r.viol(f"verdict/{rw}/{shape}/expected-{exp}-got-{got}",
                       f"{rw} of {shape} over F={sem.to_isla(f)[:70]!r}, G={sem.to_isla(gg_)[:70]!r}, H={sem.to_isla(h)[:50]!r} on {tstr(root)!r}: expected {exp}, isla {got}",
                       dict(case0, rw=rw, tree=tjson(root)), exp, got)
                break


def _prepare(name, tier):
    g = GR.cat(name)
    cg = canon(g)
    base = _base(name, tier)
    prepared = []
    for n, f in enumerate(base):
        f2 = rename_apart(f, f"_{n}")
        prepared.append((f2, common.parse(sem.to_isla(f2), g)))
    trees = []
    for t in _trees(name, tier):
        root = with_ids(t)
        trees.append((root, to_dt(root), sem.Ctx(cg, root)))
    return g, cg, prepared, trees


def qbody_cases(name, g, cg):
    """quantifier over raw n-ary bodies of atoms: (ast, isla object)"""
    from isla import language as L

    T = {"assgn": "<assgn>", "list": "<num>"}[name]
    words = {"assgn": ["x := 1", "y := x"], "list": ["0", "12"]}[name]
    a1 = ("smt", ["=", ["v", "qa"], ["s", words[0]]])
    a2 = ("smt", ["=", ["str.len", ["v", "qa"]], ["i", 1]])
    a3 = ("smt", ["=", ["v", "qa"], ["s", words[1]]])
    out = []
    for q in ("forall", "exists"):
        parts = []
        for at_ in (a1, a2, a3):
            p = common.parse(sem.to_isla((q, T, "qa", None, "start", at_)), g)
            parts.append(p)
        bv, inv = parts[0].bound_variable, parts[0].in_variable
        inners = [p.inner_formula for p in parts]
        Q = L.ForallFormula if q == "forall" else L.ExistsFormula
        for conn, node in (("and", L.ConjunctiveFormula), ("or", L.DisjunctiveFormula)):
            ast = (q, T, "qa", None, "start", (conn, a1, a2, a3))
            out.append((f"{q}-{conn}3", ast, Q(bv, inv, node(*inners))))
            ast2 = (q, T, "qa", None, "start", (conn, ("not", (conn, a1, a2)), a3, a2))
            out.append((f"{q}-{conn}-neg-nested", ast2, Q(bv, inv, node(L.NegatedFormula(node(inners[0], inners[1])), inners[2], inners[1]))))
    return out


def comb_cases(name, g):
    """quantifier bodies built through the simplifying combinators &, |, - from two atoms (a structural predicate p and an SMT atom s) and
    their negations: every (l1 op1 l2) op2 l3 and l1 op2 (l2 op1 l3) with l_i in {p, not p, s, not s}; 'not' both through - and as a raw
    NegatedFormula.  yields (tag, ast, isla object)"""
    from isla import language as L

    T = {"assgn": "<assgn>", "list": "<num>"}[name]
    pa = ("pred", "before", (), "c1", "c2")
    sa = ("smt", ["=", ["v", "c1"], ["v", "c2"]])
    wrap = lambda body: ("forall", T, "c1", None, "start", ("forall", T, "c2", None, "start", body))
    Pq = common.parse(sem.to_isla(wrap(pa)), g)
    Sq = common.parse(sem.to_isla(wrap(sa)), g)
    P, S = Pq.inner_formula.inner_formula, Sq.inner_formula.inner_formula
    outer = lambda body: L.ForallFormula(Pq.bound_variable, Pq.in_variable, L.ForallFormula(Pq.inner_formula.bound_variable, Pq.inner_formula.in_variable, body))
    lits = {"p": (pa, lambda raw: P), "-p": (("not", pa), lambda raw: L.NegatedFormula(P) if raw else -P), "s": (sa, lambda raw: S), "-s": (("not", sa), lambda raw: L.NegatedFormula(S) if raw else -S)}
    ops = {"&": ("and", lambda a, b: a & b), "|": ("or", lambda a, b: a | b)}
    for (n1, n2, n3), o1, o2, raw, left in itertools.product(itertools.product(lits, repeat=3), ops, ops, (False, True), (True, False)):
        if raw and not any(n.startswith("-") for n in (n1, n2, n3)):
            continue
        (a1, m1), (a2, m2), (a3, m3) = lits[n1], lits[n2], lits[n3]
        (k1, f1), (k2, f2) = ops[o1], ops[o2]
        if left:
            ast, mk, tag = (k2, (k1, a1, a2), a3), (lambda f1=f1, f2=f2, m1=m1, m2=m2, m3=m3, raw=raw: f2(f1(m1(raw), m2(raw)), m3(raw))), f"({n1}{o1}{n2}){o2}{n3}"
        else:
            ast, mk, tag = (k2, a1, (k1, a2, a3)), (lambda f1=f1, f2=f2, m1=m1, m2=m2, m3=m3, raw=raw: f2(m1(raw), f1(m2(raw), m3(raw)))), f"{n1}{o2}({n2}{o1}{n3})"
        yield tag + ("/raw-not" if raw else ""), wrap(ast), (lambda mk=mk: outer(mk()))


NAMES = ["v", "v_0", "v_1"]


def name_cases(name, g):
    """operands whose bound names collide (NOT renamed apart): an existential over <var> named n1 next to a universal whose match expression
    binds n2 (<var>) and n3 (<rhs>), names from {v, v_0, v_1}; combined raw and through &, in both orders.  yields (tag, ast, isla object)"""
    from isla import language as L

    for n1, n2, n3 in itertools.product(NAMES, repeat=3):
        if n3 in (n1, n2):
            continue  # one name, one type
        e = ("exists", "<var>", n1, None, "start", ("smt", ["=", ["v", n1], ["s", "x"]]))
        m = ("forall", "<assgn>", "a", (("b", "<var>", n2), ("t", " := "), ("b", "<rhs>", n3)), "start", ("not", ("smt", ["=", ["v", n2], ["v", n3]])))
        E, M = common.parse(sem.to_isla(e), g), common.parse(sem.to_isla(m), g)
        yield f"raw-conj/{n1},{n2},{n3}", ("and", e, m), (lambda E=E, M=M: L.ConjunctiveFormula(E, M))
        yield f"raw-conj-swapped/{n1},{n2},{n3}", ("and", m, e), (lambda E=E, M=M: L.ConjunctiveFormula(M, E))
        yield f"raw-disj/{n1},{n2},{n3}", ("or", e, m), (lambda E=E, M=M: L.DisjunctiveFormula(E, M))
        if n1 == n2:
            continue  # re-binding a name inside its own scope is not well-formed (evaluator.well_formed: "already bound in outer scope")
        yield f"nested/{n1},{n2},{n3}", ("exists", "<var>", n1, None, "start", ("and", e[5], m)), (lambda E=E, M=M: L.ExistsFormula(E.bound_variable, E.in_variable, L.ConjunctiveFormula(E.inner_formula, M)))


def generic_chunk(r, name, g, trees, cases, rewrites, X, kind):
    from isla.evaluator import evaluate

    for tag, ast, mk in cases:
        for rw in rewrites:
            try:
                with time_cap(120):
                    rewritten, rel = apply_rewrite(rw, mk(), X[1])
                    for root, dt, ctx in trees:
                        exp = expect(rel, sem.sat_ctx(ctx, ast), sem.sat_ctx(ctx, X[0]) if rel in ("and", "or") else None)
                        got = common.tv(evaluate(rewritten, dt, g))
                        r.evals += 1
                        r.transitions += 1
                        if exp is sem.EITHER:
                            continue
                        r.verdict((name, kind, rw), exp)
                        if got != exp:
                            r.viol(f"verdict/{rw}/{kind}/expected-{exp}-got-{got}", f"{rw} of {kind} {tag}: {sem.to_isla(ast)} on {tstr(root)!r}: expected {exp}, isla {got}",
                                   dict(g=name, shape=f"{kind}:{tag}", rw=rw, idx=[], tree=tjson(root)), exp, got)
                            break
            except CaseTimeout:
                r.caps["case_timeout_120s"] += 1
            except Exception as e:  # noqa
                r.evals += 1
                r.viol(f"rewrite-raises/{rw}/{type(e).__name__}/{kind}", f"{rw} on {kind} {tag}: {sem.to_isla(ast)} raised {type(e).__name__}: {str(e)[:100]}",
                       dict(g=name, shape=f"{kind}:{tag}", rw=rw, idx=[], tree=None), "no exception", type(e).__name__)


def run_chunk(chunk):
    from isla.evaluator import evaluate

    r = Result()
    name, tier = chunk["g"], chunk["tier"]
    g, cg, prepared, trees = _prepare(name, tier)
    for root, _dt, _ctx in trees:
        r.state(name, tstr(root))
    if chunk["kind"] in ("comb", "names"):
        cases = list(comb_cases(name, g) if chunk["kind"] == "comb" else name_cases(name, g))
        cases = cases[chunk["lo"]:chunk["hi"]]
        only = chunk.get("only")
        if only:
            cases = [c for c in cases if c[0] == only]
        generic_chunk(r, name, g, trees, cases, chunk.get("rws") or (["id", "neg", "nnf", "dnf"] if chunk["kind"] == "comb" else REWRITES), prepared[0], chunk["kind"])
        r.sample({"grammar": name, "kind": {"comb": "quantifier bodies built through &, |, - from p, not p, s, not s", "names": "operands with colliding bound names"}[chunk["kind"]], "cases": len(cases)})
        return r
    if chunk["kind"] == "qbody":
        X = prepared[0]
        for tag, ast, obj in qbody_cases(name, g, cg):
            for rw in REWRITES:
                try:
                    with time_cap(120):
                        rewritten, rel = apply_rewrite(rw, obj, X[1])
                        for root, dt, ctx in trees:
                            exp = expect(rel, sem.sat_ctx(ctx, ast), sem.sat_ctx(ctx, X[0]) if rel in ("and", "or") else None)
                            got = common.tv(evaluate(rewritten, dt, g))
                            r.evals += 1
                            r.transitions += 1
                            if exp is sem.EITHER:
                                continue
                            r.verdict((name, "q:" + tag, rw), exp)
                            if got != exp:
                                r.viol(f"verdict/{rw}/q-body/{tag}/expected-{exp}-got-{got}", f"{rw} of {sem.to_isla(ast)} on {tstr(root)!r}: expected {exp}, isla {got}",
                                       dict(g=name, shape="q:" + tag, rw=rw, idx=[], tree=tjson(root)), exp, got)
                                break
                except CaseTimeout:
                    r.caps["case_timeout_120s"] += 1
                except Exception as e:  # noqa
                    r.evals += 1
                    r.viol(f"rewrite-raises/{rw}/{type(e).__name__}/q-body", f"{rw} on {sem.to_isla(ast)} raised {type(e).__name__}: {str(e)[:100]}",
                           dict(g=name, shape="q:" + tag, rw=rw, idx=[], tree=None), "no exception", type(e).__name__)
        r.sample({"grammar": name, "kind": "quantifier over raw n-ary bodies", "cases": 8, "rewrites": REWRITES})
        return r
    if chunk["kind"] == "dual":
        # F combined with its dual quantifier over the SAME variable, domain and body
        # ("all <x> satisfy phi, and there is at least one"): operands that differ only in the quantifier kind
        n = len(prepared)
        for i, (f, F) in enumerate(prepared):
            if f[0] not in ("forall", "exists"):
                continue
            d = ("exists" if f[0] == "forall" else "forall",) + f[1:]
            D = common.parse(sem.to_isla(d), g)
            for shape, pair in (("F&G", [(f, F), (d, D)]), ("F|G", [(f, F), (d, D)]), ("F&G", [(d, D), (f, F)]), ("Conj(Disj,H)", [(f, F), (d, D)])):
                full = pair + [prepared[(i + 1) % n], prepared[(i + 2) % n]]
                try:
                    with time_cap(180):
                        run_case(r, name, g, cg, trees, full, shape, ("dual", i, shape), REWRITES)
                except CaseTimeout:
                    r.caps["case_timeout_180s"] += 1
        r.sample({"grammar": name, "kind": "formula combined with its dual quantifier (same variable, domain, body)", "bases": n})
        return r
    n = len(prepared)
    triples = _triples(n, tier)[chunk["lo"]:chunk["hi"]]
    for (i, j, k) in triples:
        pair = [prepared[i], prepared[j], prepared[k], prepared[(k + 1) % n]]
        for shape in SHAPES:
            try:
                with time_cap(180):
                    run_case(r, name, g, cg, trees, pair, shape, (i, j, k), REWRITES)
            except CaseTimeout:
                r.caps["case_timeout_180s"] += 1
    if triples:
        i, j, k = triples[0]
        r.sample({"grammar": name, "F": sem.to_isla(prepared[i][0]), "G": sem.to_isla(prepared[j][0]), "H": sem.to_isla(prepared[k][0]), "shapes": SHAPES, "rewrites": REWRITES, "trees": len(trees)})
    return r


def replay(case):
    r = Result(keep_all=True)
    name = case["g"]
    tier = case.get("tier", "quick")
    g, cg, prepared, trees = _prepare(name, tier)
    if case["tree"] is not None:
        root = from_tjson(case["tree"])
        trees = [(root, to_dt(root), sem.Ctx(cg, root))]
    if case["shape"].startswith(("comb:", "names:")):
        kind, tag = case["shape"].split(":", 1)
        r2 = run_chunk(dict(g=name, tier=tier, kind=kind, lo=0, hi=10 ** 6, only=tag, rws=[case["rw"]]))
        return r2.viols
    if case["shape"].startswith("q:"):
        ch = dict(g=name, tier=tier, kind="qbody")
        r2 = run_chunk(ch)
        return [v for v in r2.viols if v["case"]["shape"] == case["shape"] and v["case"]["rw"] == case["rw"]]
    if case["idx"] and case["idx"][0] == "dual":
        r2 = run_chunk(dict(g=name, tier=tier, kind="dual"))
        return [v for v in r2.viols if v["case"]["idx"] == case["idx"] and v["case"]["rw"] == case["rw"]]
    i, j, k = case["idx"]
    n = len(prepared)
    pair = [prepared[i], prepared[j], prepared[k], prepared[(k + 1) % n]]
    run_case(r, name, g, cg, trees, pair, case["shape"], (i, j, k), [case["rw"]])
    return r.viols
