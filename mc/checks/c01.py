"""C01 — every solver solution is grammar-valid and satisfies the constraint
   (and the shared instance generator for C02).

Instances (grammar, constraint, settings): constraints from the typed formula universe
(stratified by schema), settings over instantiation limits / optimized queries / unique trees /
insertion methods / unsat support; solve() is called repeatedly, EVERY returned tree is checked
(so every prefix of the solution sequence is covered) under the default answer schedule and, on a
core, under every single deviation of the first choice points.
Oracle: closed, valid derivation tree rooted in <start>, and the reference semantics |= the
ORIGINAL constraint text (not the solver's residual constraint).
"""
import itertools
import os

from .. import solvdrv
from ..ref import sem
from ..ref import reftree as RT
from ..ref.reftree import canon, tstr, tjson
from ..runner import Result
from ..universe import grammars as GR
from . import common
from .c03 import atom_kinds, _from_fj

PROPERTY = "C01"
LEVEL = "model_checking"
RULE = (
    "grammars assgn/list/null/signed/tags x constraints (one per formula schema of the typed universe, plus the trivial constraint) x "
    "settings {default; free/SMT instantiations 1 and 3; optimized Z3 queries off; unique trees on; insertion methods 1, 3; unsat support on} "
    "(all settings on a core of constraints, the default on all) x up to 5 (thorough 8) consecutive solve() calls, every returned tree checked; "
    "random answers: a fixed default schedule for all instances, plus every single deviation within the first 12 (thorough 30) choice points on the "
    "core; grammar kv (header:word=number) x 11 nested-SMT scenarios (an atom over an element and one over a part of it that is tied to the header) x "
    "4 settings x 9 (thorough 14) calls; a schema is a constraint schema; non-trivial iff the solver returned at least one solution for it"
)
ASSUMPTIONS = [
    "reference semantics mc/ref/sem.py (bound to the specification by C03); EITHER accepts the solution",
    "runs cut by the per-call wall-clock cap or ending in StopIteration/TimeoutError/another exception produce no further trees; what solve() may raise is C02's business",
]
TASKS_PER_CHILD = 2
SEED = 1 + int(os.environ.get("VERIF_SEED", "0") or 0)

GRAMS = ["assgn", "list", "null", "signed", "tags"]

SETTINGS = [
    ("default", {}),
    ("free1", {"max_number_free_instantiations": 1}),
    ("free3-smt3", {"max_number_free_instantiations": 3, "max_number_smt_instantiations": 3}),
    ("free1-smt3", {"max_number_free_instantiations": 1, "max_number_smt_instantiations": 3}),
    ("smt1", {"max_number_smt_instantiations": 1}),
    ("noopt", {"enable_optimized_z3_queries": False}),
    ("unique", {"enforce_unique_trees_in_queue": True}),
    ("insert1", {"tree_insertion_methods": 1}),
    ("insert3", {"tree_insertion_methods": 3}),
    ("unsat", {"activate_unsat_support": True}),
]


def solver_formulas(name, tier):
    """one formula per schema (quick: per coarse kind set), those the solver is meant for"""
    F = common.formulas_of(name, "small")
    seen = set()
    out = []
    for f in F:
        k = (tuple(sorted(atom_kinds(f))), f[0], _nq(f)) if tier == "quick" else sem.schema(f)
        if k in seen:
            continue
        seen.add(k)
        out.append(f)
    if tier == "thorough" and len(out) > 260:
        out = out[:: max(1, len(out) // 260)]
    return [("true",)] + out


def _nq(f):
    n = 0
    while f[0] in ("forall", "exists"):
        n += 1
        f = f[5]
    return n


def scenarios():
    """nested SMT constraints: one atom over an element and one over a proper part of it that is tied to something outside the element"""
    ln = lambda v, op, k: ("smt", [op, ["str.len", ["v", v]], ["i", k]])
    eqv = lambda a, b: ("smt", ["=", ["v", a], ["v", b]])
    q = lambda k, T, v, inv, body, m=None: (k, T, v, m, inv, body)
    tie = q("forall", "<hdr>", "h", "start", q("forall", "<num>", "n", "start", eqv("n", "h")))
    tie_succ = q("forall", "<hdr>", "h", "start", q("forall", "<num>", "n", "start", ("smt", ["=", ["str.to.int", ["v", "n"]], ["+", ["str.to.int", ["v", "h"]], ["i", 1]]])))
    out = []
    for k in (6, 8):
        out.append(("and", q("forall", "<item>", "i", "start", ln("i", "=", k)), tie))
        out.append(("and", tie, q("forall", "<item>", "i", "start", ln("i", "=", k))))
        out.append(q("forall", "<item>", "i", "start", ("and", ln("i", "=", k), q("forall", "<num>", "n", "i", q("forall", "<hdr>", "h", "start", eqv("n", "h"))))))
    out.append(("and", q("forall", "<item>", "i", "start", ln("i", ">=", 7)), tie_succ))
    mw = (("b", "<word>", "w"), ("t", "="), ("b", "<num>", "n"))
    out.append(q("forall", "<item>", "i", "start", ("and", ln("w", "=", 3), q("forall", "<hdr>", "h", "start", eqv("n", "h"))), mw))
    out.append(("and", q("forall", "<item>", "i", "start", ln("i", "=", 7)), q("forall", "<item>", "j", "start", q("forall", "<hdr>", "h", "start", eqv("n", "h")), mw)))
    # two-variable atoms that lose a variable once the other one is instantiated (len(w) > -1, len(w) >= 0)
    h0 = q("forall", "<hdr>", "h", "start", ("smt", ["=", ["str.to.int", ["v", "h"]], ["i", 0]]))
    for rel, rhs in ((">", ["-", ["str.to.int", ["v", "g"]], ["i", 1]]), (">=", ["str.to.int", ["v", "g"]])):
        out.append(("and", h0, q("forall", "<hdr>", "g", "start", q("forall", "<word>", "w", "start", ("smt", [rel, ["str.len", ["v", "w"]], rhs])))))
    return out


SCEN_SETTINGS = ["default", "free1-smt3", "smt1", "noopt"]


def instances(tier):
    """(grammar name, formula, setting name, deviations?)"""
    out = []
    for f in scenarios():
        for sname in SCEN_SETTINGS:
            out.append(("kv", f, sname, False))
    # witness of the known finding about atoms that relate a tree to a subtree quantified in it (first seen in the thorough tier)
    out.append(("null", ("exists", "<A>", "a", None, "start", ("forall", "<B>", "b", None, "a", ("smt", ["=", ["v", "a"], ["v", "b"]]))), "default", False))
    for name in GRAMS:
        F = solver_formulas(name, tier)
        core = F[:: max(1, len(F) // (6 if tier == "quick" else 24))]
        for f in F:
            out.append((name, f, "default", f in core))
        for f in core:
            for sname, _s in SETTINGS[1:]:
                out.append((name, f, sname, False))
    return out


def chunks(tier, seed):
    I = instances(tier)
    per = 3
    return [dict(lo=i, hi=min(len(I), i + per), tier=tier) for i in range(0, len(I), per)]


def check_tree(r, name, cg, f, text, t, case, call_no, ctxcache):
    """all C01 obligations for one returned tree"""
    r.evals += 1
    w = tstr(t)
    if t[0] != "<start>":
        r.viol("solution/wrong-root", f"solution {w!r} of {text!r} is rooted in {t[0]}", case, "<start>", t[0])
        return
    if RT.is_open(t):
        r.viol("solution/open-tree", f"solve() returned a tree with open leaves for {text!r}", case, "closed tree", w)
        return
    if not RT.valid(cg, t, allow_open=False):
        r.viol("solution/invalid-tree", f"solution {w!r} of {text!r} is not a derivation tree of the grammar: {RT.strip_ids(t)}", case, "valid tree", w)
        return
    v = sem.sat(cg, t, f)
    if v is False:
        kinds = ",".join(sorted(atom_kinds(f)))
        if _relates_tree_to_possible_subtree(cg, f):
            kinds += "/atom-relates-a-tree-to-a-possible-subtree"
        r.viol(f"solution/violates-constraint/{kinds}", f"solution #{call_no} {w!r} does not satisfy {text!r} [{case['setting']}]", dict(case, tree=tjson(t)), "satisfying tree", w)


def _relates_tree_to_possible_subtree(cg, f, types=None):
    """does some SMT atom mention two tree variables one of whose types can occur below the other's (or both the same recursive type)?"""
    from ..ref import member

    types = types or {}
    k = f[0]
    if k in ("forall", "exists"):
        t2 = dict(types, **{f[2]: f[1]})
        for e in f[3] or ():
            if e[0] == "b":
                t2[e[2]] = e[1]
        return _relates_tree_to_possible_subtree(cg, f[5], t2)
    if k in ("forall_int", "exists_int"):
        return _relates_tree_to_possible_subtree(cg, f[2], types)
    if k in ("not", "and", "or"):
        return any(_relates_tree_to_possible_subtree(cg, g_, types) for g_ in f[1:])
    if k == "smt":
        vs = sorted({x for x in _vars_of(f[1]) if x in types})
        reach = member.reach_rel(cg)
        return any(types[b] in reach[types[a]] or types[a] in reach[types[b]] for i, a in enumerate(vs) for b in vs[i + 1:])
    return False


def _vars_of(e):
    if isinstance(e, list):
        if len(e) == 2 and e[0] == "v":
            yield e[1]
        else:
            for x in e:
                yield from _vars_of(x)


def run_instance(r, name, f, sname, deviate, tier):
    g = GR.cat(name)
    cg = canon(g)
    text = sem.to_isla(f)
    settings = dict(dict(SETTINGS)[sname])
    settings.setdefault("timeout_seconds", 4)
    ncalls = (5 if tier == "quick" else 8) if name != "kv" else (9 if tier == "quick" else 14)
    case = dict(g=name, formula=f, setting=sname, script=[])
    sch = (name, sem.schema(f))
    r.state(name, text, sname)

    def one(script):
        outs, info = solvdrv.drive(g, text, settings, ncalls, extra_calls=0, script=script, default_seed=SEED, call_cap=12.0 if tier == "quick" else 20.0, total_cap=(24.0 if tier == "quick" else 60.0) * (2 if name == "kv" else 1))
        r.transitions += info["steps"]
        c = dict(case, script=script)
        ntrees = 0
        for k, o in enumerate(outs):
            r.outcomes[o[0]] += 1
            if o[0] == "tree":
                ntrees += 1
                check_tree(r, name, cg, f, text, o[1], c, k + 1, None)
            elif o[0] == "cap":
                r.caps["solve_call_wallclock_cap"] += 1
        r.verdict(sch, "ran")
        if ntrees:
            r.verdict(sch, "solution-returned")
        return info

    info = one([])
    if deviate:
        from .. import explorer

        base, sizes = info["script"], info["sizes"]
        H = min(len(base), 12 if tier == "quick" else 30)
        # every single deviation within the horizon
        for i in range(H):
            for alt in range(sizes[i]):
                if alt == base[i]:
                    continue
                try:
                    one(base[:i] + [alt])
                    r.extra["deviation_runs"] += 1
                except explorer.ReplayDivergence:
                    # the run is not a function of its random answers alone (hidden state / wall clock inside Z3): counted, never judged
                    r.caps["replay_divergence"] += 1
    return info


def _sizes(g, text, settings, ncalls, tier):
    """domain sizes of the choice points of the default run"""
    from .. import explorer
    import isla.solver as S
    from isla.derivation_tree import DerivationTree as DT
    from ..runner import time_cap, CaseTimeout

    ex = explorer.Execution([], SEED)
    try:
        with explorer.patched(ex):
            DT.next_id = 3_000_000
            with time_cap(20):
                s = S.ISLaSolver(g, text, **settings)
                for _ in range(ncalls):
                    try:
                        s.solve()
                    except (StopIteration, TimeoutError):
                        break
    except BaseException:  # noqa
        pass
    return [p[1] for p in ex.points]


def run_chunk(chunk):
    r = Result()
    tier = chunk["tier"]
    I = instances(tier)[chunk["lo"]:chunk["hi"]]
    for name, f, sname, deviate in I:
        info = run_instance(r, name, f, sname, deviate, tier)
        r.sample({"grammar": name, "constraint": sem.to_isla(f), "setting": sname, "solver_steps": info["steps"], "choice_points": info["choice_points"]}, limit=2)
    return r


def replay(case):
    from ..ref.reftree import from_tjson

    r = Result()
    name = case["g"]
    f = _from_fj(case["formula"])
    g = GR.cat(name)
    cg = canon(g)
    text = sem.to_isla(f)
    settings = dict(dict(SETTINGS)[case["setting"]])
    settings.setdefault("timeout_seconds", 4)
    outs, info = solvdrv.drive(g, text, settings, 14, extra_calls=0, script=case.get("script", []), default_seed=SEED, call_cap=20.0, total_cap=120.0)
    for k, o in enumerate(outs):
        if o[0] == "tree":
            check_tree(r, name, cg, f, text, o[1], dict(case), k + 1, None)
    return r.viols
