"""C22 — solving is reproducible for a fixed random seed.

Instance x hash seed x random seed: several FRESH interpreters per configuration print the first
n solutions (and how the run ended); the outputs of one configuration must be byte-equal.
Plus an entropy census: with no timeout configured, any call from ISLa code to an entropy source
nobody seeds (time.*, os.urandom, uuid, random.SystemRandom) is a violation, whether or not two
runs happened to differ.
"""
import json
import os
import subprocess
import sys

from ..ref import sem
from ..runner import Result
from . import common

PROPERTY = "C22"
LEVEL = "exploration"
RULE = (
    "instances (grammar, constraint, settings) chosen to reach structural predicates in queued states, SMT clusters over several tree "
    "variables, tree insertion, count with a numeric variable, the coverage fuzzer and plain grammar fuzzing x PYTHONHASHSEED in {0, 4711} "
    "(thorough also 1) x random.seed in {0, 1} x 3 fresh interpreter processes per configuration (thorough 4), 12-30 solutions each; a case "
    "is one configuration; non-trivial iff its runs produced at least two different solutions"
)
ASSUMPTIONS = [
    "equality is byte-equality of the printed solution sequences and end conditions of the processes of one configuration",
    "a process in which Z3 answered 'unknown' within its own 500 ms budget (z3_solve then retries and consumes Python's random stream - load-dependent by design) is detected, counted and not compared",
    "the census whitelist is empty: census instances configure no timeout and no unsat support, so solver.py has no reason to read the clock",
]
TASKS_PER_CHILD = 1
CONFIRM = False

DEFUSE = 'forall <assgn> a="<var> := {<var> r}" in start: (exists <assgn> d="{<var> l} := <rhs>" in start: ((before(d, a) and (= l r))))'


def instances(tier):
    out = [
        ("def-use", "assgn", DEFUSE, {}, 25),
        ("def-use-unique", "assgn", DEFUSE, {"enforce_unique_trees_in_queue": True}, 20),
        ("smt-cluster", "assgn", 'forall <assgn> a="{<var> l} := {<var> r}" in start: ((= l r))', {"max_number_smt_instantiations": 3}, 15),
        ("trivial", "assgn", "true", {}, 30),
        ("count-numeric", "list", 'exists int n: ((count(start, "<num>", n) and (>= (str.to.int n) 3)))', {}, 12),
        ("exists-insert", "assgn", 'exists <assgn> a in start: ((= a "x := 1"))', {}, 15),
        ("structural", "assgn", "forall <var> a in start: (exists <digit> b in start: (before(b, a)))", {}, 15),
        ("len-list", "list", "forall <num> n in start: ((= (str.len n) 2))", {"max_number_smt_instantiations": 2}, 15),
    ]
    if tier == "thorough":
        out += [
            ("tags", "tags", "true", {}, 30),
            ("null", "null", 'forall <B> b in start: ((= (str.len b) 2))', {}, 10),
            ("signed", "signed", 'forall <digits> d in start: ((>= (str.to.int d) 10))', {}, 15),
        ]
    return out


def chunks(tier, seed):
    out = []
    hs = [0, 4711] if tier == "quick" else [0, 1, 4711]
    for name, g, text, settings, n in instances(tier):
        for h in hs:
            for rs in (0, 1):
                out.append(dict(kind="repro", name=name, g=g, text=text, settings=settings, n=n, hashseed=h, seed=rs, procs=3 if tier == "quick" else 4))
    for name, g, text, settings, n in instances(tier)[:5]:
        out.append(dict(kind="census", name=name, g=g, text=text, settings=settings, n=min(n, 10)))
    return out


def spawn(inst, hashseed):
    env = dict(os.environ)
    env["PYTHONHASHSEED"] = str(hashseed)
    return subprocess.Popen([sys.executable, "-m", "mc.c22_child", json.dumps(inst)], stdout=subprocess.PIPE, stderr=subprocess.DEVNULL, env=env, text=True)


def run_chunk(chunk):
    r = Result()
    inst = dict(g=chunk["g"], text=chunk["text"], settings=dict(chunk["settings"]), n=chunk["n"], seed=chunk.get("seed", 0))
    if chunk["kind"] == "census":
        inst["census"] = True
        p = spawn(inst, 0)
        try:
            out, _ = p.communicate(timeout=300)
        except subprocess.TimeoutExpired:
            p.kill()
            r.caps["census_300s_cap"] += 1
            return r
        r.evals += 1
        r.transitions += 1
        r.state("census", chunk["name"])
        line = [l for l in out.splitlines() if l.startswith("CENSUS:")]
        calls = json.loads(line[0][7:]) if line else []
        r.verdict(("census", chunk["name"]), "ran")
        r.verdict(("census", chunk["name"]), "clean" if not calls else "dirty")
        for c in calls:
            r.viol(f"unseeded-entropy-source/{c}", f"while solving {chunk['text']!r} without a timeout, ISLa code called {c}", dict(kind="census", name=chunk["name"]), "no call", c)
        r.sample({"part": "entropy census", "instance": chunk["name"], "calls": calls})
        return r
    inst["settings"].setdefault("timeout_seconds", 60)
    procs = [spawn(inst, chunk["hashseed"]) for _ in range(chunk["procs"])]
    outs = []
    for p in procs:
        try:
            o, _ = p.communicate(timeout=300)
            outs.append(o)
        except subprocess.TimeoutExpired:
            p.kill()
            r.caps["run_300s_cap"] += 1
            outs.append(None)
    r.state("repro", chunk["name"], chunk["hashseed"], chunk["seed"])
    good = [o for o in outs if o is not None]
    tainted = [o for o in good if "z3-unknown-retry" in o]
    if tainted:
        # Z3 hit its own time budget in that process (load-dependent by design, see ASSUMPTIONS): not comparable
        r.caps["run_with_z3_unknown_retry_not_compared"] += len(tainted)
        good = [o for o in good if "z3-unknown-retry" not in o]
    r.evals += len(good)
    r.transitions += sum(o.count("\n") for o in good)
    for o in good:
        for l in o.splitlines():
            if not l.startswith("END:"):
                r.verdict(("repro", chunk["name"], chunk["hashseed"], chunk["seed"]), l)
    if any("END:TimeoutError" in o for o in good):
        r.caps["run_ended_by_solver_timeout"] += 1  # the prefix up to the timeout is still compared below
    if len(good) >= 2:
        ref = good[0].splitlines()
        for k, o in enumerate(good[1:], 1):
            ls = o.splitlines()
            m = min(len(ref), len(ls))
            # compare the common prefix of the solutions when a run was cut by the clock, everything otherwise
            cut = any(x.startswith("END:TimeoutError") for x in (ref[-1:], ls[-1:]) for x in x)
            a, b = (ref[: m - 1], ls[: m - 1]) if cut else (ref, ls)
            if a != b:
                i = next((j for j in range(min(len(a), len(b))) if a[j] != b[j]), min(len(a), len(b)))
                r.viol(f"not-reproducible/{chunk['name']}",
                       f"{chunk['name']}: two fresh processes with PYTHONHASHSEED={chunk['hashseed']} and random.seed({chunk['seed']}) differ at solution #{i + 1}: {a[i] if i < len(a) else '<end>'} vs {b[i] if i < len(b) else '<end>'}",
                       dict(kind="repro", name=chunk["name"], hashseed=chunk["hashseed"], seed=chunk["seed"]), a[i] if i < len(a) else None, b[i] if i < len(b) else None)
                break
    r.sample({"part": "fresh-process pairs", "instance": chunk["name"], "hashseed": chunk["hashseed"], "seed": chunk["seed"], "processes": len(good), "solutions": good[0].count("\n") - 1 if good else 0}, limit=1)
    return r


def replay(case):
    r = Result()
    tier = "thorough"
    for ch in chunks(tier, 0):
        if ch["kind"] == case["kind"] and ch["name"] == case["name"] and ch.get("hashseed") == case.get("hashseed") and ch.get("seed") == case.get("seed"):
            ch["procs"] = 6
            return run_chunk(ch).viols
    return []
