"""C18 — check, parse, repair and mutate agree with the constraint and with each other.

For each grammar and constraint: ALL strings up to a length bound over the grammar's terminal
tokens (valid, syntactically invalid and semantically invalid inputs arise by construction)
go through check(str), parse(str), check(tree); a core goes through repair and mutate under the
choice-point explorer's default schedule (all entropy owned).  Also call histories on ONE solver
object: check/parse results must not depend on earlier parse(nonterminal=...), check or solve calls.
"""
import itertools
import os

from .. import explorer, solvdrv
from ..ref import sem, member
from ..ref import reftree as RT
from ..ref.reftree import canon, is_nt, tstr, with_ids, to_dt, from_dt, paths, replace
from ..runner import Result, time_cap, CaseTimeout
from ..universe import grammars as GR
from . import common
from .c03 import atom_kinds

PROPERTY = "C18"
LEVEL = "model_checking"
RULE = (
    "grammars assgn/list/null/amb x constraints (a schema-stratified selection incl. the def-use constraint, SMT, structural, count and match-"
    "expression formulas) x all strings up to 3 terminal tokens (plus all yields of the closed-tree universe) through check(str), parse(str) "
    "and check(tree); repair on every semantically invalid and a sample of valid inputs and mutate on valid inputs for a core of constraints; "
    "solver-object histories of length 2-3 over {parse(w), parse(w, nonterminal), check(str), check(tree), check(derived tree), solve} "
    "followed by a check/parse whose answer is known; a schema is (grammar, method); non-trivial iff accepted and rejected inputs both occurred"
)
ASSUMPTIONS = [
    "for the ambiguous grammar only syntax-level statements are judged (check(str) parses to the first tree)",
    "repair/mutate: returning Nothing / being cut by the wall-clock cap is allowed; a returned tree must be grammar-valid and satisfy the constraint (reference semantics); an exception of repair on an INVALID input or of mutate returns nothing and is counted, not judged (what the embedded solver may raise is C02's statement); an exception of repair on a valid input is a violation",
]
TASKS_PER_CHILD = 3
SEED = 1 + int(os.environ.get("VERIF_SEED", "0") or 0)

GRAMS = ["assgn", "list", "null", "amb"]


def constraints(name, tier):
    if name == "amb":
        return [("true",), ("exists", "<A>", "a", None, "start", ("smt", ["=", ["str.len", ["v", "a"]], ["i", 2]]))]
    F = common.formulas_of(name, "small")
    seen = set()
    out = []
    for f in F:
        k = (tuple(sorted(atom_kinds(f))), f[0])
        if k in seen:
            continue
        seen.add(k)
        out.append(f)
    n = 10 if tier == "quick" else 30
    out = out[:: max(1, len(out) // n)][:n]
    if name == "assgn":
        mx1 = (("nt", "<var>"), ("t", " := "), ("b", "<var>", "r"))
        mx2 = (("b", "<var>", "l"), ("t", " := "), ("nt", "<rhs>"))
        out.append(("forall", "<assgn>", "a", mx1, "start", ("exists", "<assgn>", "d", mx2, "start", ("and", ("pred", "before", (), "d", "a"), ("smt", ["=", ["v", "l"], ["v", "r"]])))))
    return out


def strings(name, cg, tier):
    toks = sorted({s for alts in cg.values() for alt in alts for s in alt if not is_nt(s)})
    L = 3 if tier == "quick" else 4
    out = {""}
    for n in range(1, L + 1):
        for p in itertools.product(toks, repeat=n):
            out.add("".join(p))
    if name != "amb":
        for t in common.trees_of(name, "quick"):
            out.add(tstr(t))
    else:
        out |= {"a" * k for k in range(1, 6)}
    return sorted(out, key=lambda w: (len(w), w))


def chunks(tier, seed):
    out = []
    for name in GRAMS:
        cg = canon(GR.cat(name))
        C = constraints(name, tier)
        for ci in range(len(C)):
            out.append(dict(kind="agree", g=name, ci=ci, tier=tier))
        for ci in range(0, len(C), 3):
            out.append(dict(kind="repair", g=name, ci=ci, tier=tier))
        out.append(dict(kind="history", g=name, tier=tier))
    return out


def first_tree(g, w):
    from isla.parser import EarleyParser
    from isla.derivation_tree import DerivationTree as DT

    return DT.from_parse_tree(next(EarleyParser(g).parse(w)))


def agree_chunk(r, name, ci, tier):
    from isla.solver import ISLaSolver, SemanticError

    g = GR.cat(name)
    cg = canon(g)
    f = constraints(name, tier)[ci]
    text = sem.to_isla(f)
    solver = ISLaSolver(g, text)
    W = strings(name, cg, tier)
    amb = name == "amb"
    for w in W:
        r.state(name, text, w)
        case = dict(kind="agree", g=name, ci=ci, w=w)
        inl = member.member(cg, "<start>", w)
        expsem = None
        if inl and not amb:
            t = from_dt(first_tree(g, w))
            expsem = sem.sat(cg, t, f)
        # --- check(str)
        r.evals += 1
        r.transitions += 1
        try:
            with time_cap(30):
                got = solver.check(w)
        except CaseTimeout:
            r.caps["check_30s_cap"] += 1
            continue
        except Exception as e:  # noqa
            r.viol(f"check-str/raises/{common.exc_key(e)}", f"check({w!r}) raised {type(e).__name__}: {str(e)[:80]} for {text!r}", case)
            got = None
        if got is not None:
            r.verdict((name, "check-str"), got)
            if not inl and got:
                r.viol("check-str/true-for-non-member", f"check({w!r}) = True but the string is not in the grammar's language ({text!r})", case, False, True)
            elif inl and not amb and expsem is not sem.EITHER and got != expsem:
                r.viol(f"check-str/wrong-verdict/{'accepts-violating' if got else 'rejects-satisfying'}", f"check({w!r}) = {got} for {text!r}; the specification says {expsem}", case, expsem, got)
        # --- parse(str)
        r.evals += 1
        try:
            tree = solver.parse(w, silent=True)
            outcome = "tree"
        except SyntaxError:
            outcome = "syntax"
        except SemanticError:
            outcome = "semantic"
        except Exception as e:  # noqa
            outcome = "exc"
            r.viol(f"parse/raises/{common.exc_key(e)}", f"parse({w!r}) raised {type(e).__name__}: {str(e)[:80]} for {text!r}", case)
        r.verdict((name, "parse"), outcome)
        if outcome != "exc":
            want = "syntax" if not inl else None if (amb or expsem is sem.EITHER) else ("tree" if expsem else "semantic")
            if want is not None and outcome != want:
                r.viol(f"parse/{want}-expected-got-{outcome}", f"parse({w!r}) for {text!r}: expected {want}, got {outcome}", case, want, outcome)
            if outcome == "tree":
                if str(tree) != w or not RT.valid(cg, from_dt(tree), allow_open=False):
                    r.viol("parse/tree-not-faithful", f"parse({w!r}) returned a tree with string {str(tree)!r}", case, w, str(tree))
        # --- check(tree) == check(str(tree))
        if inl and not amb:
            r.evals += 1
            try:
                ct = solver.check(first_tree(g, w))
                r.verdict((name, "check-tree"), ct)
                if got is not None and ct != got:
                    r.viol("check-tree-differs-from-check-str", f"check(tree of {w!r}) = {ct} but check({w!r}) = {got} for {text!r}", case, got, ct)
            except Exception as e:  # noqa
                r.viol(f"check-tree/raises/{common.exc_key(e)}", f"check(tree of {w!r}) raised {type(e).__name__} for {text!r}", case)
    r.sample({"part": "agreement", "grammar": name, "constraint": text, "strings": len(W)})


def repair_chunk(r, name, ci, tier):
    from isla.solver import ISLaSolver
    from returns.maybe import Nothing
    from returns.pipeline import is_successful

    g = GR.cat(name)
    cg = canon(g)
    C = constraints(name, tier)
    if ci >= len(C) or name == "amb":
        return
    f = C[ci]
    text = sem.to_isla(f)
    trees = common.trees_of(name, "quick")
    step = max(1, len(trees) // (14 if tier == "quick" else 40))
    for t in trees[::step]:
        w = tstr(t)
        ok = sem.sat(cg, with_ids(t), f)
        if ok is sem.EITHER:
            continue
        case = dict(kind="repair", g=name, ci=ci, w=w)
        r.state("repair", name, text, w)
        for method in ("repair", "mutate"):
            if method == "mutate" and not ok:
                continue
            r.evals += 1
            ex = explorer.Execution([], SEED)
            try:
                with explorer.patched(ex):
                    solvdrv.reset_globals()
                    solver = ISLaSolver(g, text)
                    with time_cap(20):
                        if method == "repair":
                            res = solver.repair(w, fix_timeout_seconds=2)
                        else:
                            res = solver.mutate(w, min_mutations=1, max_mutations=2, fix_timeout_seconds=1)
            except CaseTimeout:
                r.caps[f"{method}_20s_cap"] += 1
                continue
            except Exception as e:  # noqa
                if method == "repair" and ok:
                    # "repair returns an already valid input unchanged"
                    r.viol(f"{method}/raises/{common.exc_key(e)}", f"{method}({w!r}) raised {type(e).__name__}: {str(e)[:100]} for {text!r} although the input is valid", case)
                else:
                    # nothing was returned: what the embedded solver may raise is C02's statement, not C18's
                    r.outcomes[f"{method}-raised:{common.exc_key(e)}"] += 1
                continue
            r.transitions += len(ex.points) + 1
            if method == "repair":
                if not is_successful(res):
                    r.verdict((name, "repair"), "nothing")
                    if ok:
                        r.viol("repair/valid-input-not-returned", f"repair({w!r}) returned Nothing although the input satisfies {text!r}", case)
                    continue
                out = from_dt(res.unwrap())
                r.verdict((name, "repair"), "tree")
                if ok and tstr(out) != w:
                    r.viol("repair/valid-input-changed", f"repair({w!r}) = {tstr(out)!r} although the input already satisfies {text!r}", case, w, tstr(out))
                    continue
            else:
                out = from_dt(res)
                r.verdict((name, "mutate"), tstr(out) == w)
            if RT.is_open(out) or not RT.valid(cg, out, allow_open=False) or out[0] != "<start>":
                r.viol(f"{method}/invalid-tree", f"{method}({w!r}) returned {tstr(out)!r}, not a closed derivation tree of the grammar", case)
            elif sem.sat(cg, out, f) is False:
                r.viol(f"{method}/result-violates-constraint", f"{method}({w!r}) returned {tstr(out)!r}, which violates {text!r}", case)
    r.sample({"part": "repair/mutate", "grammar": name, "constraint": text})


def history_chunk(r, name, tier):
    """call histories on ONE solver object; the final answers must be those of a fresh solver"""
    from isla.solver import ISLaSolver, SemanticError

    if name == "amb":
        return
    g = GR.cat(name)
    cg = canon(g)
    C = constraints(name, tier)
    nts = [x for x in cg if x != "<start>"]
    trees = common.trees_of(name, "quick")
    for ci in range(0, len(C), 2):
        f = C[ci]
        text = sem.to_isla(f)
        good = [t for t in trees if sem.sat(cg, with_ids(t), f) is True][:3]
        bad = [t for t in trees if sem.sat(cg, with_ids(t), f) is False][:3]
        if not good or not bad:
            continue
        probes = [("check", tstr(good[0]), True), ("check", tstr(bad[0]), False), ("check", "@@", False)]
        lang = member.bounded_lang(cg, 4)

        def prefix_ops():
            ops = []
            for nt in nts[:3]:
                ws = sorted(lang[nt], key=lambda w: (len(w), w))[:1]
                for w in ws:
                    ops.append(("parse-nt", w, nt))
            ops.append(("parse", tstr(good[-1])))
            ops.append(("check-str", tstr(bad[-1])))
            ops.append(("check-tree", good[-1]))
            ops.append(("check-tree", bad[-1]))
            ops.append(("check-derived", good[0], bad[0]))
            ops.append(("solve",))
            return ops

        P = prefix_ops()
        hists = [(a,) for a in P] + [(a, b) for a in P for b in P if a is not b]
        if tier == "quick":
            hists = hists[::2]
        for hist in hists:
            r.state("history", name, ci, repr(hist)[:200])
            try:
                with time_cap(40):
                    solvdrv.reset_globals()
                    s = ISLaSolver(g, text, timeout_seconds=3)
                    for op in hist:
                        _apply(s, g, op)
                    for kind, w, want in probes:
                        r.evals += 1
                        r.transitions += 1
                        got = s.check(w)
                        r.verdict((name, "history-probe"), got)
                        if got != want:
                            r.viol(f"history/check-changed-after/{'+'.join(o[0] for o in hist)}", f"after {[_op_show(o) for o in hist]} on the same solver, check({w!r}) = {got} for {text!r}; a fresh solver says {want}",
                                   dict(kind="history", g=name, ci=ci, hist=[_op_show(o) for o in hist], w=w), want, got)
                    # tree derived from a checked tree via replace_path keeps the root id
                    d = _derived(good[0], bad[0])
                    if d is not None:
                        dt_good = to_dt(with_ids(good[0]))
                        s.check(dt_good)
                        der, want = d
                        got = s.check(_derive_dt(dt_good, good[0], bad[0]))
                        r.evals += 1
                        if want is not sem.EITHER and got != want:
                            r.viol("history/check-derived-tree-wrong", f"after check(T) = True, check(T') for T' derived from T by replace_path (same root id) = {got}, specification says {want} ({tstr(der)!r}, {text!r})",
                                   dict(kind="history", g=name, ci=ci, hist=["check-derived"], w=tstr(der)), want, got)
            except CaseTimeout:
                r.caps["history_40s_cap"] += 1
            except Exception as e:  # noqa
                r.viol(f"history/raises/{common.exc_key(e)}", f"history {[_op_show(o) for o in hist]} raised {type(e).__name__}: {str(e)[:100]}", dict(kind="history", g=name, ci=ci, hist=[_op_show(o) for o in hist], w=None))
    r.sample({"part": "solver-object histories", "grammar": name})


def _derived(good, bad):
    """replace the first differing child subtree of good by bad's: a tree that shares good's root"""
    if good[0] != bad[0] or not good[1] or not bad[1] or len(good[1]) != len(bad[1]):
        return None
    return bad, False  # T' is structurally the violating tree


def _derive_dt(dt_good, good, bad):
    """T' = T with every child replaced by the corresponding child of the violating tree (root id kept)"""
    new = dt_good
    b = to_dt(with_ids(bad, itertools.count(900_000)))
    for i in range(len(bad[1])):
        new = new.replace_path((i,), b.children[i])
    return new


def _op_show(op):
    return [o if isinstance(o, str) else tstr(o) for o in op]


def _apply(s, g, op):
    from isla.solver import SemanticError

    k = op[0]
    try:
        if k == "parse-nt":
            s.parse(op[1], op[2], silent=True)
        elif k == "parse":
            s.parse(op[1], silent=True)
        elif k == "check-str":
            s.check(op[1])
        elif k == "check-tree":
            s.check(to_dt(with_ids(op[1])))
        elif k == "check-derived":
            dt = to_dt(with_ids(op[1]))
            s.check(dt)
            s.check(_derive_dt(dt, op[1], op[2]))
        elif k == "solve":
            try:
                s.solve()
            except Exception:  # noqa  (what solve() may raise is C02's statement; the history only needs the call to have happened)
                pass
    except (SyntaxError, SemanticError, StopIteration, TimeoutError):
        pass


def run_chunk(chunk):
    r = Result()
    if chunk["kind"] == "agree":
        agree_chunk(r, chunk["g"], chunk["ci"], chunk["tier"])
    elif chunk["kind"] == "repair":
        for ci in range(chunk["ci"], chunk["ci"] + 3):
            repair_chunk(r, chunk["g"], ci, chunk["tier"])
    else:
        history_chunk(r, chunk["g"], chunk["tier"])
    return r


def replay(case):
    r = Result(keep_all=True)
    if case["kind"] == "agree":
        agree_chunk(r, case["g"], case["ci"], "quick")
        return [v for v in r.viols if v["case"]["w"] == case["w"]]
    if case["kind"] == "repair":
        repair_chunk(r, case["g"], case["ci"], "quick")
        return [v for v in r.viols if v["case"]["w"] == case["w"]]
    history_chunk(r, case["g"], "quick")
    return [v for v in r.viols if v["case"]["hist"] == case["hist"] and v["case"]["ci"] == case["ci"]][:2]
