"""C14 — solver helpers that build trees to a target meet that target.

(a) create_fixed_length_tree(N, canonical(G), n): generated + catalogue grammars, every
    nonterminal, n in 0..6, ALL answers of its random.choice (complete exploration).
(b) numeric model values: ISLaSolver on str.to.int(<int>) = k / >= k over numeral grammars with
    zero padding, plus sign and minus sign; the value of the returned subtree is recomputed.
(c) count(graph, p, needle, k): every open/closed tree p, every needle, k in 0..4, literal and
    variable third argument; replacements are validated and needle nodes recounted.
"""
import itertools

from .. import explorer
from ..ref import reftree as RT, member
from ..ref.reftree import canon, is_nt, paths, tstr, tjson, from_tjson
from ..runner import Result, time_cap, CaseTimeout
from ..universe import grammars as GR
from ..universe.trees import closed_trees, open_prefixes
from . import common

PROPERTY = "C14"
LEVEL = "model_checking"
RULE = (
    "(a) grammars of families 1nt2, 1nt3, 2nt2, 3ntN3 (quick: every 1st/3rd/40th/30th; thorough: 1st/1st/4th/3rd) and the catalogue x every "
    "nonterminal x target length 0..6 x answer sequences of the helper's random.choice with <= 2 (thorough 3) deviations from a fixed default "
    "schedule within the first 8 (12) choice points, capped at 60 (600) executions per case; (b) numeral grammars "
    "{plain, zero-padded, optional plus, optional minus, mandatory sign} x constraints str.to.int(<int>) {=, >=, <=} k for k in -12..12, 100 (quick: seven values) "
    "x optimized Z3 queries on/off, first two solutions; (c) grammars assgn/list/null/block/rows x all closed trees and one-/two-node "
    "open prefixes x needle in nonterminals x k in 0..4 as literal and as numeric variable; a schema is (part, grammar, target); "
    "non-trivial iff both 'built/holds' and 'none/does not hold' occurred"
)
ASSUMPTIONS = [
    "returning None / 'not ready' / raising StopIteration is always allowed: the property constrains results, not success",
    "count includes the root of in_tree when it is a needle (the implementation's reading, bound to evaluate() by C03/C20); the two readings are accepted where they differ only for Boolean answers",
    "str.to.int on negative numerals follows ISLa's documented sign-aware conversion for part (b) (the solver itself promises the number format [+-]0*<digits>)",
]
TASKS_PER_CHILD = 4
import os

SEED = 1 + int(os.environ.get("VERIF_SEED", "0") or 0)  # default answer schedule only
DEV = (2, 8, 60)  # deviation bound, horizon, execution cap per case (set per tier in run_chunk)

ROWS = {
    "<start>": ["<row>"],
    "<row>": ["<left>|<right>"],
    "<left>": ["<items>"],
    "<right>": ["<items>"],
    "<items>": ["", "<item><items>"],
    "<item>": ["a", "b"],
}

NUMERALS = {
    "plain": {"<start>": ["<int>"], "<int>": ["<digit>", "<leaddigit><digits>"], "<digits>": ["<digit>", "<digit><digits>"], "<digit>": [str(i) for i in range(10)], "<leaddigit>": [str(i) for i in range(1, 10)]},
    "padded": {"<start>": ["<int>"], "<int>": ["<digits>"], "<digits>": ["<digit>", "<digit><digits>"], "<digit>": [str(i) for i in range(10)]},
    "pad3": {"<start>": ["<int>"], "<int>": ["<digit><digit><digit>"], "<digit>": [str(i) for i in range(10)]},
    "optplus": {"<start>": ["<int>"], "<int>": ["<digits>", "+<digits>"], "<digits>": ["<digit>", "<digit><digits>"], "<digit>": [str(i) for i in range(10)]},
    "optminus": {"<start>": ["<int>"], "<int>": ["<digits>", "-<digits>"], "<digits>": ["<digit>", "<digit><digits>"], "<digit>": [str(i) for i in range(10)]},
    "signed": {"<start>": ["<int>"], "<int>": ["<sign><digits>"], "<sign>": ["+", "-"], "<digits>": ["<digit>", "<digit><digits>"], "<digit>": [str(i) for i in range(10)]},
}

COUNT_GRAMS = {"assgn": GR.ASSGN, "list": GR.LIST, "null": GR.NULL, "block": GR.BLOCK, "rows": ROWS}
COUNT_BOUND = {"assgn": (6, 14), "list": (5, 9), "null": (6, 12), "block": (6, 12), "rows": (6, 12)}


def _gens(tier):
    out = []
    for fam, step in (("1nt2", 1), ("1nt3", 3 if tier == "quick" else 1), ("2nt2", 40 if tier == "quick" else 4), ("3ntN3", 30 if tier == "quick" else 3)):
        for i, g in enumerate(GR.generated(fam)):
            if i % step == 0:
                out.append((f"{fam}:{i}", g))
    for name in ("assgn", "list", "block", "null", "signed", "tags"):
        out.append(("cat:" + name, GR.cat(name)))
    out.append(("cat:rows", ROWS))
    return out


def chunks(tier, seed):
    out = []
    n = len(_gens(tier))
    per = 120
    for i in range(0, n, per):
        out.append(dict(kind="fixed", lo=i, hi=min(n, i + per), tier=tier))
    for name in NUMERALS:
        for opt in (True, False):
            out.append(dict(kind="numeric", g=name, opt=opt, tier=tier))
    for name in COUNT_GRAMS:
        cg = canon(COUNT_GRAMS[name])
        T = _count_trees(name, tier)
        for i in range(0, len(T), 25):
            out.append(dict(kind="count", g=name, lo=i, hi=min(len(T), i + 25), tier=tier))
    return out


# ------------------------------------------------------------------ (a) fixed-length creation

def fixed_case(r, gid, g, cg, icg, N, n, lang):
    from isla.solver import create_fixed_length_tree

    case = dict(kind="fixed", g=g, N=N, n=n)
    feasible = any(len(w) == n for w in lang[N])

    def body():
        try:
            with time_cap(1):
                t = create_fixed_length_tree(N, icg, n)
                return ("ok", None if t is None else RT.from_dt(t))
        except CaseTimeout:
            return ("timeout", None)
        except explorer.ReplayDivergence:
            raise
        except Exception as e:  # noqa
            return ("exc", common.exc_key(e))

    def check(obs, ex):
        r.evals += 1
        r.transitions += 1 + len(ex.points)
        kind, t = obs
        script = [p[2] for p in ex.points]
        if kind == "timeout":
            r.caps["fixed_length_1s_cap"] += 1
            return
        if kind == "exc":
            r.viol(f"fixed/raises/{t}", f"create_fixed_length_tree({N}, {n}) raised {t} for grammar {g}", dict(case, script=script), "tree or None", t)
            return
        r.verdict(("fixed", n), t is not None)
        if t is None:
            r.outcomes["fixed:none" + (":although-feasible" if feasible else "")] += 1
            return
        r.outcomes["fixed:tree"] += 1
        bad = None
        if t[0] != N:
            bad = ("wrong-root", f"root is {t[0]}")
        elif RT.is_open(t):
            bad = ("open-tree", "result has open leaves")
        elif not RT.valid(cg, t, allow_open=False):
            bad = ("invalid-tree", f"result {t} is not a derivation tree of the grammar")
        elif len(tstr(t)) != n:
            bad = ("wrong-length", f"string {tstr(t)!r} has length {len(tstr(t))}")
        if bad:
            r.viol(f"fixed/{bad[0]}", f"create_fixed_length_tree({N}, {n}) under answers {script[:12]} for grammar {g}: {bad[1]}", dict(case, script=script), f"valid closed tree of length {n}", tstr(t))

    st = explorer.explore(body, check, DEV[0], horizon=DEV[1], max_execs=DEV[2], default_seed=SEED)
    if st["capped"]:
        r.caps["fixed_exec_cap"] += 1


# ------------------------------------------------------------------ (b) numeric model values

def numeric_chunk(r, name, opt, tier):
    from isla.solver import ISLaSolver
    import random

    g = NUMERALS[name]
    cg = canon(g)
    ks = list(range(-12, 13)) + [100] if tier == "thorough" else [-3, -1, 0, 1, 7, 12, 100]
    for k in ks:
        for op in ("=", ">=", "<="):
            text = f"({op} (str.to.int <int>) {k if k >= 0 else '(- %d)' % -k})"
            case = dict(kind="numeric", g=name, opt=opt, text=text)
            r.state("numeric", name, opt, text)
            try:
                with time_cap(20):
                    random.seed(0)
                    s = ISLaSolver(g, text, enable_optimized_z3_queries=opt, max_number_smt_instantiations=2, timeout_seconds=10)
                    sols = []
                    for _ in range(2):
                        try:
                            sols.append(s.solve())
                        except (StopIteration, TimeoutError):
                            break
            except CaseTimeout:
                r.caps["numeric_20s_cap"] += 1
                continue
            except Exception as e:  # noqa
                # what solve() may raise is C02's business; here only built trees are judged
                r.evals += 1
                r.outcomes[f"numeric:solve-raised-{type(e).__name__}"] += 1
                continue
            r.verdict(("numeric", name, op), bool(sols))
            for t in sols:
                r.evals += 1
                r.transitions += 1
                ref = RT.from_dt(t)
                w = tstr(ref)
                if not RT.valid(cg, ref, allow_open=False) or ref[0] != "<start>":
                    r.viol(f"numeric/invalid-tree/{name}", f"solution {w!r} of {text!r} is not a closed derivation tree", case, "valid tree", w)
                    continue
                try:
                    v = int(w)
                except ValueError:
                    r.viol(f"numeric/not-a-numeral/{name}", f"solution {w!r} of {text!r} is not a numeral", case, "numeral", w)
                    continue
                ok = {"=": v == k, ">=": v >= k, "<=": v <= k}[op]
                if not ok:
                    r.viol(f"numeric/requirement-not-met/{name}/{op}", f"solution {w!r} (value {v}) does not satisfy {text!r} [optimized={opt}]", case, f"value {op} {k}", v)
    r.sample({"part": "numeric", "grammar": name, "optimized_z3_queries": opt, "constraints": len(ks) * 3})


# ------------------------------------------------------------------ (c) count completion

def _count_trees(name, tier):
    cg = canon(COUNT_GRAMS[name])
    d, n = COUNT_BOUND[name]
    if tier == "thorough":
        d, n = d + 1, n + 4
    ts = closed_trees(cg, "<start>", d, max_nodes=n)
    seen = dict.fromkeys(ts)
    for t in ts:
        for p, _ in open_prefixes(t, max_open=2):
            seen.setdefault(p)
    seen.setdefault(("<start>", None))
    return list(seen)


def count_case(r, name, g, cg, graph, reach, t, needle, k, mode):
    from isla import isla_predicates as ip
    from isla.derivation_tree import DerivationTree as DT
    from isla.language import BoundVariable

    DT.next_id = 1_000_000
    tref = RT.with_ids(t, itertools.count(0))
    dt = RT.to_dt(tref)
    case = dict(kind="count", g=name, tree=tjson(tref), needle=needle, k=k, mode=mode)
    num = DT(str(k), None) if mode == "literal" else BoundVariable("n", "NUM")
    r.evals += 1
    r.transitions += 1
    try:
        with time_cap(5):
            res = ip.count(graph, dt, needle, num)
    except CaseTimeout:
        r.caps["count_5s_cap"] += 1
        return
    except Exception as e:  # noqa
        r.viol(f"count/raises/{common.exc_key(e)}", f"count({_show(tref)!r}, {needle}, {k if mode == 'literal' else 'n'}) raised {type(e).__name__}: {str(e)[:100]}", case, "result", type(e).__name__)
        return
    have = sum(1 for _p, st in paths(tref) if st[0] == needle)
    # an open leaf can produce MORE needles iff the needle is (properly) reachable from its label
    more = any(st[1] is None and needle in reach[st[0]] for _p, st in paths(tref))
    sch = ("count", name, mode, k)
    if not res.ready():
        r.outcomes["count:not-ready"] += 1
        r.verdict(sch, "not-ready")
        return
    if res.true() or res.false():
        r.outcomes[f"count:{res.true()}"] += 1
        r.verdict(sch, res.true())
        if not RT.is_open(tref):
            if res.true() != (have == k):
                r.viol(f"count/boolean-wrong-on-closed-tree/{mode}", f"count({tstr(tref)!r}, {needle}, {k}) = {res.true()} but the closed tree has {have} {needle} nodes", case, have == k, res.true())
        elif res.true() and (have != k or more):
            r.viol(f"count/true-on-open-tree/{mode}", f"count({_show(tref)!r}, {needle}, {k}) = True although the tree has {have} needles and {'can' if more else 'cannot'} still grow more", case, "not True", True)
        return
    # a replacement
    r.outcomes["count:replacement"] += 1
    r.verdict(sch, "replacement")
    for key, val in res.result.items():
        if mode == "variable":
            if more:
                r.viol("count/variable-bound-although-more-needles-possible", f"count({_show(tref)!r}, {needle}, n) bound n={val} although open leaves can still produce {needle}", case, "not ready", str(val))
            elif str(val) != str(have):
                r.viol("count/variable-bound-to-wrong-number", f"count({_show(tref)!r}, {needle}, n) bound n={val}, the tree has {have}", case, have, str(val))
            continue
        nref = RT.from_dt(val)
        bad = None
        if nref[0] != tref[0]:
            bad = ("wrong-root", f"replacement root {nref[0]}")
        elif not RT.valid(cg, nref, allow_open=True):
            bad = ("invalid-tree", "replacement is not a derivation tree of the grammar")
        else:
            n2 = sum(1 for _p, st in paths(nref) if st[0] == needle)
            grow = [(p, st[0]) for p, st in paths(nref) if st[1] is None and needle in reach[st[0]]]
            if n2 != k:
                bad = ("wrong-count", f"replacement {_show(nref)!r} has {n2} {needle} nodes, requested {k}")
            elif grow:
                bad = ("open-leaf-can-still-produce-needle", f"replacement {_show(nref)!r} keeps open leaves {grow} from which {needle} is reachable")
        if bad:
            r.viol(f"count/replacement/{bad[0]}", f"count({_show(tref)!r}, {needle}, {k}): {bad[1]}", case, f"valid tree with exactly {k} {needle}", _show(nref))


def _show(t):
    if t[1] is None:
        return t[0]
    if not t[1]:
        return "" if is_nt(t[0]) else t[0]
    return "".join(_show(c) for c in t[1])


def run_chunk(chunk):
    from isla.helpers import canonical
    from grammar_graph import gg

    r = Result()
    tier = chunk["tier"]
    global DEV
    DEV = (2, 8, 60) if tier == "quick" else (3, 12, 600)
    if chunk["kind"] == "fixed":
        gens = _gens(tier)[chunk["lo"]:chunk["hi"]]
        for gid, g in gens:
            cg = canon(g)
            icg = canonical(g)
            lang = member.bounded_lang(cg, 6)
            r.state("fixed", gid)
            for N in cg:
                for n in range(0, 7):
                    fixed_case(r, gid, g, cg, icg, N, n, lang)
        if gens:
            r.sample({"part": "fixed-length", "grammar": gens[0][1], "nonterminals": len(gens[0][1]), "lengths": "0..6"})
        return r
    if chunk["kind"] == "numeric":
        numeric_chunk(r, chunk["g"], chunk["opt"], tier)
        return r
    name = chunk["g"]
    g = COUNT_GRAMS[name]
    cg = canon(g)
    graph = gg.GrammarGraph.from_grammar(g)
    reach = member.reach_rel(cg)
    T = _count_trees(name, tier)[chunk["lo"]:chunk["hi"]]
    for t in T:
        r.state("count", name, t)
        for needle in cg:
            if needle == "<start>":
                continue
            for k in range(0, 5):
                count_case(r, name, g, cg, graph, reach, t, needle, k, "literal")
            count_case(r, name, g, cg, graph, reach, t, needle, 0, "variable")
    if T:
        r.sample({"part": "count", "grammar": name, "tree": _show(T[0]), "needles": [x for x in cg if x != "<start>"], "k": "0..4"})
    return r


def replay(case):
    from isla.helpers import canonical
    from grammar_graph import gg

    r = Result(keep_all=True)
    if case["kind"] == "fixed":
        g = case["g"]
        cg = canon(g)
        lang = member.bounded_lang(cg, 6)
        fixed_case(r, "replay", g, cg, canonical(g), case["N"], case["n"], lang)
        return r.viols
    if case["kind"] == "numeric":
        numeric_chunk(r, case["g"], case["opt"], "quick")
        return [v for v in r.viols if v["case"]["text"] == case["text"]]
    name = case["g"]
    g = COUNT_GRAMS[name]
    cg = canon(g)
    count_case(r, name, g, cg, gg.GrammarGraph.from_grammar(g), member.reach_rel(cg), RT.strip_ids(from_tjson(case["tree"])), case["needle"], case["k"], case["mode"])
    return r.viols
