"""C06 — three-valued verdicts on partial trees never contradict any completion.

For every open prefix p (antichains of <= 2/3 opened inner nodes of every closed tree of the
universe, node ids kept) and every formula: v = evaluate(phi, p).  If v is TRUE or FALSE, ALL
closed completions of p (every open leaf replaced by every closed subtree of the pool of its
nonterminal) are judged by the reference semantics and each must give v.
"""
import itertools

from ..ref import sem
from ..ref.reftree import canon, with_ids, to_dt, tstr, tjson, from_tjson, strip_ids, paths, replace, is_nt
from ..runner import Result, time_cap, CaseTimeout, Vacuous
from ..universe import grammars as GR
from ..universe.trees import closed_trees, open_prefixes
from . import common

PROPERTY = "C06"
LEVEL = "model_checking"
RULE = (
    "grammars assgn/list/null/tags x all distinct open prefixes of all closed trees (<= 2 opened inner nodes quick, <= 3 thorough; "
    "plus the prefix with everything below depth d opened) x a schema-stratified formula set (plus, per nonterminal, ten atoms over SMT operators the evaluator hands to Z3 - prefixof, suffixof, contains, "
    "indexof, str.<=, str.<, replace, at, substr - positive and negated, under both quantifiers) x ALL completions from per-nonterminal "
    "pools of closed subtrees; a schema is a formula with constants blanked; non-trivial iff at least two of {TRUE, FALSE, UNKNOWN} occurred "
    "for it on open prefixes (UNKNOWN is always allowed); every prefix is also evaluated as the tree below <start> (rooted in another nonterminal) with "
    "the formulas that quantify over that root's label"
)
ASSUMPTIONS = [
    "reference semantics mc/ref/sem.py decides the completions (bound to evaluate() on closed trees by C03); EITHER accepts any verdict",
    "completions are drawn from bounded pools (all closed subtrees of the nonterminal up to a depth/node bound), not from all of T(G)",
]
TASKS_PER_CHILD = 4

GRAMS = ["assgn", "list", "null", "tags"]
POOL = {"assgn": (4, 12), "list": (4, 9), "null": (5, 14), "tags": (4, 16)}
POOL_T = {"assgn": (5, 16), "list": (5, 11), "null": (6, 18), "tags": (5, 24)}
TREES = {"assgn": (6, 18), "list": (5, 12), "null": (6, 20), "tags": (5, 26)}
TREES_T = {"assgn": (6, 20), "list": (5, 14), "null": (7, 30), "tags": (5, 30)}


def _formulas(name, tier):
    F = common.formulas_of(name, "small" if tier == "quick" else "std")
    per = 2 if tier == "quick" else 3
    seen = {}
    out = []
    for f in F:
        k = sem.schema(f)
        if seen.get(k, 0) < per:
            seen[k] = seen.get(k, 0) + 1
            out.append(f)
    extra = []
    if name == "assgn":
        # witness of the known finding about nth on open trees (first seen in the thorough tier's larger formula set)
        extra.append(("exists", "<rhs>", "a", None, "start", ("forall", "<stmt>", "b", None, "start", ("pred", "nth", (1,), "a", "b"))))
    return out + _fallback_operator_formulas(name) + [f for f in extra if f not in out]


def _fallback_operator_formulas(name):
    """SMT operators that the evaluator does not translate to Python (it asks Z3 with the tree's string substituted): on an open tree the string
    contains the names of the open leaves, so the probes are chosen to be sensitive to '<', '>' and the letters of nonterminal names"""
    cg = canon(GR.cat(name))
    out = []
    V = ["v", "a"]
    for T in [t for t in cg if t != "<start>"]:
        ch = T[1]
        atoms_ = [
            ["str.prefixof", ["s", "<"], V], ["str.suffixof", ["s", ">"], V], ["str.contains", V, ["s", "<"]], ["str.contains", V, ["s", ch]],
            ["=", ["str.indexof", V, ["s", ch], ["i", 0]], ["i", 1]], ["str.<=", V, ["s", "9"]], ["str.<", ["s", ";"], V],
            ["=", ["str.replace", V, ["s", "<"], ["s", ""]], V], ["=", ["str.at", V, ["i", 0]], ["s", "<"]], ["=", ["str.substr", V, ["i", 0], ["i", 1]], ["s", "<"]],
        ]
        for e in atoms_:
            for k in ("forall", "exists"):
                out.append((k, T, "a", None, "start", ("smt", e)))
                out.append((k, T, "a", None, "start", ("not", ("smt", e))))
    return out


def _pools(cg, name, tier):
    d, n = (POOL if tier == "quick" else POOL_T)[name]
    pools = {}
    for X in cg:
        ts = closed_trees(cg, X, d, max_nodes=n)
        if name == "null":
            ts = ts + [t for t in closed_trees(cg, X, d, max_nodes=n, eps_leaf="empty") if t not in ts]
        pools[X] = ts
    return pools


def _prefixes(cg, name, tier):
    d, n = (TREES if tier == "quick" else TREES_T)[name]
    ts = closed_trees(cg, "<start>", d, max_nodes=n)
    seen = {}
    for t in ts:
        for p, opened in open_prefixes(t, max_open=2 if tier == "quick" else 3):
            seen.setdefault(p, opened)
        # everything below depth k opened
        for k in (2, 3):
            p = _open_below(t, k)
            if p != t:
                seen.setdefault(p, ())
    return list(seen)


def _open_below(t, k):
    if t[1] is None or not t[1]:
        return t
    if not is_nt(t[0]):
        return t
    if k == 0:
        return (t[0], None)
    return (t[0], tuple(_open_below(c, k - 1) for c in t[1]))


def chunks(tier, seed):
    out = []
    for name in GRAMS:
        cg = canon(GR.cat(name))
        P = _prefixes(cg, name, tier)
        per = 12 if tier == "quick" else 8
        for i in range(0, len(P), per):
            out.append(dict(g=name, lo=i, hi=min(len(P), i + per), tier=tier))
    return out


def completions(p, pools, cap=4000):
    ol = [(q, st[0]) for q, st in paths(p) if st[1] is None]
    opts = [pools[lab] for _q, lab in ol]
    total = 1
    for o in opts:
        total *= len(o)
    capped = total > cap
    for k, combo in enumerate(itertools.product(*opts)):
        if k >= cap:
            break
        c = p
        for (q, _lab), sub in zip(ol, combo):
            c = replace(c, q, sub)
        yield c, capped


def run_chunk(chunk):
    from isla.evaluator import evaluate

    r = Result()
    name, tier = chunk["g"], chunk["tier"]
    g = GR.cat(name)
    cg = canon(g)
    pools = _pools(cg, name, tier)
    P = _prefixes(cg, name, tier)[chunk["lo"]:chunk["hi"]]
    F = _formulas(name, tier)
    parsed = []
    for f in F:
        try:
            parsed.append((f, sem.to_isla(f), common.parse(sem.to_isla(f), g)))
        except Exception:  # noqa  (parser problems belong to C03/C07)
            r.outcomes["formula-rejected-by-parser"] += 1
    refcache = {}
    units = []
    for p in P:
        proot = with_ids(p)
        units.append((proot, None, parsed))
        # the same prefix evaluated on the subtree below <start> (a tree rooted in another nonterminal): the node a quantifier has to
        # match can then be the ROOT of the evaluated tree; only formulas that quantify over the root's label are run
        sub = proot[1][0] if proot[1] and len(proot[1]) == 1 else None
        if sub is not None and sub[1] and any(st[1] is None for _q, st in paths(sub)):
            fs = [x for x in parsed if _quantifies_over(x[0], sub[0])]
            if fs:
                units.append((sub, (0,), fs))
    for proot, subpath, formulas_ in units:
        dt = to_dt(proot)
        comps = None
        r.state(name, strip_ids(proot), subpath)
        for f, text, pf in formulas_:
            try:
                with time_cap(60):
                    v = common.tv(evaluate(pf, dt, g))
            except CaseTimeout:
                r.caps["evaluate_timeout_60s"] += 1
                continue
            except Exception as e:  # noqa
                v = "EXC:" + common.exc_key(e)
            r.evals += 1
            r.transitions += 1
            r.outcomes[f"open-verdict:{v}"] += 1
            sch = (name, sem.schema(f))
            if isinstance(v, str) and v.startswith("EXC"):
                r.viol(f"raises/{v[4:]}", f"evaluate({text!r}) on open tree {_show(proot)} raised {v}", _case(name, proot, f, None), "verdict", v)
                continue
            if v == "UNKNOWN":
                r.verdict(sch, "unknown")
                continue
            r.verdict(sch, f"definite-{v}")
            if comps is None:
                comps = list(completions(proot, pools))  # completions of a subtree are the subtrees of the completions
                if comps and comps[0][1]:
                    r.caps["completions_capped_4000"] += 1
            for c, _capped in comps:
                key = (strip_ids(c), text)
                if key not in refcache:
                    refcache[key] = sem.sat(cg, c, f)
                ref = refcache[key]
                r.transitions += 1
                if ref is sem.EITHER:
                    continue
                if ref != v:
                    kinds = ",".join(sorted(_kinds(f)))
                    key = f"open-{v}-but-completion-{ref}/{kinds}"
                    if "count" in kinds and _count_search_gives_up(f, proot, c, g):
                        key = "open-False-but-completion-True/count"  # root cause confirmed on the count() call itself
                    r.viol(key,
                           f"evaluate({text!r}) = {v} on open tree {_show(proot)}, but its completion {tstr(c)!r} {'satisfies' if ref else 'violates'} it",
                           _case(name, proot, f, c), ref, v)
                    break
        r.sample({"grammar": name, "open_tree": _show(proot), "formulas": len(parsed)}, limit=2)
    return r


def _quantifies_over(f, label):
    k = f[0]
    if k in ("forall", "exists"):
        return f[1] == label or _quantifies_over(f[5], label)
    if k in ("forall_int", "exists_int"):
        return _quantifies_over(f[2], label)
    if k in ("not", "and", "or"):
        return any(_quantifies_over(g_, label) for g_ in f[1:])
    return False


def _count_atoms(f, types, acc):
    """(in_var type or None for start, needle, k) of every count atom with a literal number"""
    k = f[0]
    if k in ("forall", "exists"):
        _count_atoms(f[5], dict(types, **{f[2]: f[1]}), acc)
    elif k in ("forall_int", "exists_int"):
        _count_atoms(f[2], types, acc)
    elif k in ("not", "and", "or"):
        for g_ in f[1:]:
            _count_atoms(g_, types, acc)
    elif k == "count" and f[3][0] == "s":
        acc.append((types.get(f[1]), f[2], f[3][1]))
    return acc


def _count_search_gives_up(f, proot, completion, g):
    """root cause of the known finding, checked on count() directly: on an open (sub)tree it answers a definite
    False although the corresponding subtree of this completion has exactly the requested number of needles"""
    from isla import isla_predicates as ip
    from isla.derivation_tree import DerivationTree as DT
    from grammar_graph import gg

    graph = gg.GrammarGraph.from_grammar(g)
    for T, needle, kk in _count_atoms(f, {}, []):
        if not kk.isdigit():
            continue
        for p, st in paths(proot):
            if (T is None and p == ()) or (T is not None and st[0] == T):
                if not any(s2[1] is None for _q, s2 in paths(st)):
                    continue
                try:
                    sub_c = completion
                    for i in p:
                        sub_c = sub_c[1][i]
                    have = sum(1 for _q, s2 in paths(sub_c) if s2[0] == needle)
                    res = ip.count(graph, to_dt(st), needle, DT(kk, None))
                except Exception:  # noqa
                    continue
                if res.ready() and res.false() and have == int(kk):
                    return True
    return False


def _kinds(f):
    from .c03 import atom_kinds

    return atom_kinds(f)


def _show(t):
    """string with open leaves shown as their nonterminal"""
    if t[1] is None:
        return t[0]
    if not t[1]:
        return "" if is_nt(t[0]) else t[0]
    return "".join(_show(c) for c in t[1])


def _case(name, p, f, c):
    return dict(g=name, prefix=tjson(p), formula=f, completion=None if c is None else tjson(c))


def replay(case):
    from isla.evaluator import evaluate
    from .c03 import _from_fj

    r = Result()
    name = case["g"]
    g = GR.cat(name)
    cg = canon(g)
    p = from_tjson(case["prefix"])
    f = _from_fj(case["formula"])
    text = sem.to_isla(f)
    try:
        v = common.tv(evaluate(common.parse(text, g), to_dt(p), g))
    except Exception as e:  # noqa
        v = "EXC:" + common.exc_key(e)
        r.viol(f"raises/{v[4:]}", f"evaluate({text!r}) on open tree {_show(p)} raised {v}", case, "verdict", v)
        return r.viols
    if v == "UNKNOWN" or case["completion"] is None:
        return []
    c = from_tjson(case["completion"])
    ref = sem.sat(cg, c, f)
    if ref is not sem.EITHER and ref != v:
        kinds = ",".join(sorted(_kinds(f)))
        key = f"open-{v}-but-completion-{ref}/{kinds}"
        if "count" in kinds and _count_search_gives_up(f, p, c, g):
            key = "open-False-but-completion-True/count"
        r.viol(key, f"evaluate({text!r}) = {v} on open tree {_show(p)}, completion {tstr(c)!r} gives {ref}", case, ref, v)
    return r.viols


def finalize(agg, tier):
    definite = sum(v for k, v in agg.outcomes.items() if k in ("open-verdict:True", "open-verdict:False"))
    total = sum(v for k, v in agg.outcomes.items() if k.startswith("open-verdict:"))
    if total and definite / total < 0.05:
        raise Vacuous(f"only {definite} of {total} open-tree evaluations were definite")
    return {"definite_open_verdicts": definite, "open_evaluations": total}
