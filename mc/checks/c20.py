"""C20 — library semantic predicates decide their documented relation on concrete trees.

count, octal_to_decimal, crop, ljust, rjust, ljust_crop, rjust_crop, extend_crop on ALL closed
argument trees up to a bound and all numeric arguments of an alphabet; Boolean answers and
proposed replacements are recomputed independently (Python str methods / int conversions).
"""
import itertools

from ..ref import reftree as RT, member
from ..ref.reftree import canon, paths, tstr, tjson, from_tjson, is_nt
from ..runner import Result, time_cap, CaseTimeout
from ..universe import grammars as GR
from ..universe.trees import closed_trees
from . import common

PROPERTY = "C20"
LEVEL = "model_checking"
RULE = (
    "count: grammars assgn/list/null/rows x all closed trees (and their closed subtrees as in_tree) x every needle x num 0..5 as closed "
    "tree and as numeric variable; octal_to_decimal: all octal/decimal digit strings of length <= 3 x 4 argument modes (tree/tree, "
    "tree/variable, variable/tree, open argument); crop/ljust/rjust/ljust_crop/rjust_crop/extend_crop: all closed trees of a nullable "
    "field nonterminal with <= 4 characters over {0, space, a, x} x width 0..6 as tree, int and variable x fill characters {0, space, a}; "
    "a schema is (predicate, argument mode); non-trivial iff both 'holds' and 'does not hold / replacement' occurred"
)
ASSUMPTIONS = [
    "count counts every node labelled NEEDLE in in_tree including its root (the implementation's reading; C03 accepts both readings where only the root decides)",
    "crop holds for len <= width (it only ever shortens); the justify predicates hold for len == width; extend_crop is only applied to non-empty strings of one repeated character (its documented precondition: the fill character is taken from the string)",
    "a proposed replacement must be a closed valid tree for the argument's nonterminal whose string is the Python str.ljust/rjust/slicing result",
]
TASKS_PER_CHILD = 6

FIELD = {"<start>": ["<f>"], "<f>": ["", "<c><f>"], "<c>": ["0", " ", "a", "x"]}
OCT = {
    "<start>": ["<o>;<d>"],
    "<o>": ["<odigit>", "<odigit><o>"],
    "<d>": ["<ddigit>", "<ddigit><d>"],
    "<odigit>": [str(i) for i in range(8)],
    "<ddigit>": [str(i) for i in range(10)],
}
from .c14 import ROWS

COUNT_GRAMS = {"assgn": GR.ASSGN, "list": GR.LIST, "null": GR.NULL, "rows": ROWS}
COUNT_BOUND = {"assgn": (6, 20), "list": (5, 12), "null": (6, 16), "rows": (6, 14)}


def chunks(tier, seed):
    out = []
    for name in COUNT_GRAMS:
        n = len(_count_trees(name, tier))
        for i in range(0, n, 20):
            out.append(dict(kind="count", g=name, lo=i, hi=min(n, i + 20), tier=tier))
    out.append(dict(kind="octal", tier=tier, part=0))
    out.append(dict(kind="octal", tier=tier, part=1))
    F = _field_trees(tier)
    for i in range(0, len(F), 40):
        out.append(dict(kind="just", lo=i, hi=min(len(F), i + 40), tier=tier))
    return out


def _count_trees(name, tier):
    d, n = COUNT_BOUND[name]
    if tier == "thorough":
        d, n = d + 1, n + 6
    return closed_trees(canon(COUNT_GRAMS[name]), "<start>", d, max_nodes=n)


def _field_trees(tier):
    L = 4 if tier == "quick" else 5
    cg = canon(FIELD)
    ts = closed_trees(cg, "<f>", L + 2, max_nodes=3 * L + 4)
    return [t for t in ts if len(tstr(t)) <= L]


# ------------------------------------------------------------------ count

def count_chunk(r, name, tier, lo, hi):
    from grammar_graph import gg
    from isla import isla_predicates as ip
    from isla.derivation_tree import DerivationTree as DT
    from isla.language import BoundVariable

    g = COUNT_GRAMS[name]
    cg = canon(g)
    graph = gg.GrammarGraph.from_grammar(g)
    for t in _count_trees(name, tier)[lo:hi]:
        root = RT.with_ids(t)
        r.state("count", name, t)
        subs = [(p, st) for p, st in paths(root) if is_nt(st[0]) and st[1]]
        # in_tree: the root and every closed proper subtree
        for p, st in subs[:12]:
            dt = RT.to_dt(st)
            for needle in cg:
                have = sum(1 for _q, s2 in paths(st) if s2[0] == needle)
                for k in range(0, 6):
                    case = dict(kind="count", g=name, tree=tjson(st), needle=needle, k=k, mode="literal")
                    r.evals += 1
                    r.transitions += 1
                    try:
                        res = ip.COUNT_PREDICATE.evaluate(graph, dt, needle, DT(str(k), None))
                    except Exception as e:  # noqa
                        r.viol(f"count/raises/{common.exc_key(e)}", f"count({tstr(st)!r}, {needle}, {k}) raised {type(e).__name__}: {str(e)[:80]}", case)
                        continue
                    r.verdict(("count", "literal"), have == k)
                    if not (res.ready() and (res.true() or res.false())):
                        r.viol("count/no-boolean-on-closed-tree", f"count({tstr(st)!r}, {needle}, {k}) on a closed tree gave {res}", case, have == k, str(res))
                    elif res.true() != (have == k):
                        cls = "root-is-needle" if st[0] == needle else "needle-below-root"
                        r.viol(f"count/wrong-verdict/{cls}", f"count({tstr(st)!r} rooted in {st[0]}, {needle}, {k}) = {res.true()} but the tree has {have} {needle} nodes", case, have == k, res.true())
                case = dict(kind="count", g=name, tree=tjson(st), needle=needle, k=None, mode="variable")
                r.evals += 1
                try:
                    res = ip.COUNT_PREDICATE.evaluate(graph, dt, needle, BoundVariable("n", "NUM"))
                    got = {str(k_): str(v) for k_, v in (res.result or {}).items()} if res.ready() and not res.true() and not res.false() else None
                except Exception as e:  # noqa
                    r.viol(f"count/raises/{common.exc_key(e)}", f"count({tstr(st)!r}, {needle}, n) raised {type(e).__name__}", case)
                    continue
                r.verdict(("count", "variable"), have > 0)
                if got is None or list(got.values()) != [str(have)]:
                    cls = "root-is-needle" if st[0] == needle else "needle-below-root"
                    r.viol(f"count/variable-wrong-number/{cls}", f"count({tstr(st)!r} rooted in {st[0]}, {needle}, n) proposes {got}, the tree has {have}", case, have, got)
        r.sample({"predicate": "count", "grammar": name, "tree": tstr(root), "in_trees": min(len(subs), 12)}, limit=1)


# ------------------------------------------------------------------ octal_to_decimal

def octal_chunk(r, tier, part):
    from grammar_graph import gg
    from isla import isla_predicates as ip
    from isla.derivation_tree import DerivationTree as DT
    from isla.language import BoundVariable
    from isla.solver import ISLaSolver

    graph = gg.GrammarGraph.from_grammar(OCT)
    cg = canon(OCT)
    P = ip.OCTAL_TO_DEC_PREDICATE(graph, "<o>", "<d>")
    solver = ISLaSolver(OCT)
    L = 3
    octs = ["".join(p) for n in range(1, L + 1) for p in itertools.product("01237", repeat=n)]
    decs = ["".join(p) for n in range(1, L + 1) for p in itertools.product("01589", repeat=n)]
    octs = octs[part::2]
    otrees = {o: solver.parse(o, "<o>", skip_check=True, silent=True) for o in octs}
    dtrees = {d: solver.parse(d, "<d>", skip_check=True, silent=True) for d in decs}
    for o in octs:
        r.state("octal", o)
        ov = int(o, 8)
        # tree / variable
        case = dict(kind="octal", o=o, d=None, mode="tree/variable")
        r.evals += 1
        try:
            res = P.evaluate(graph, otrees[o], BoundVariable("d", "<d>"))
            val = [str(v) for v in res.result.values()] if res.ready() and not res.true() and not res.false() else None
            r.verdict(("octal", "tree/variable"), val is not None)
            if val is None or int(val[0]) != ov or not RT.valid(cg, RT.from_dt(list(res.result.values())[0]), allow_open=False):
                r.viol("octal/tree-variable/wrong-decimal", f"octal_to_decimal({o!r}, d) proposes d = {val}; {o} in octal is {ov}", case, ov, val)
        except Exception as e:  # noqa
            r.viol(f"octal/raises/{common.exc_key(e)}/tree-variable", f"octal_to_decimal({o!r}, d) raised {type(e).__name__}: {str(e)[:80]}", case)
        for d in decs:
            case = dict(kind="octal", o=o, d=d, mode="tree/tree")
            r.evals += 1
            r.transitions += 1
            exp = ov == int(d)
            try:
                res = P.evaluate(graph, otrees[o], dtrees[d])
            except Exception as e:  # noqa
                r.viol(f"octal/raises/{common.exc_key(e)}/tree-tree", f"octal_to_decimal({o!r}, {d!r}) raised {type(e).__name__}: {str(e)[:80]}", case)
                continue
            r.verdict(("octal", "tree/tree"), exp)
            if not (res.ready() and (res.true() or res.false())) or res.true() != exp:
                r.viol("octal/tree-tree/wrong-verdict", f"octal_to_decimal({o!r}, {d!r}) = {res}; {o} in octal is {ov}", case, exp, str(res))
    if part == 0:
        for d in decs:
            case = dict(kind="octal", o=None, d=d, mode="variable/tree")
            r.evals += 1
            try:
                res = P.evaluate(graph, BoundVariable("o", "<o>"), dtrees[d])
                val = [str(v) for v in res.result.values()] if res.ready() and not res.true() and not res.false() else None
                r.verdict(("octal", "variable/tree"), val is not None)
                if val is None or int(val[0], 8) != int(d):
                    r.viol("octal/variable-tree/wrong-octal", f"octal_to_decimal(o, {d!r}) proposes o = {val}; {d} is {oct(int(d))[2:]} in octal", case, oct(int(d))[2:], val)
            except Exception as e:  # noqa
                r.viol(f"octal/raises/{common.exc_key(e)}/variable-tree", f"octal_to_decimal(o, {d!r}) raised {type(e).__name__}: {str(e)[:80]}", case)
        # open arguments: not ready
        for a, b in ((DT("<o>", None), dtrees["8"]), (otrees[octs[0]], DT("<d>", None))):
            r.evals += 1
            try:
                res = P.evaluate(graph, a, b)
                r.verdict(("octal", "open"), res.ready())
                if res.ready() and (res.true() or res.false()):
                    r.viol("octal/open-argument-decided", f"octal_to_decimal with an open argument answered {res}", dict(kind="octal", o=str(a), d=str(b), mode="open"))
            except Exception as e:  # noqa
                r.viol(f"octal/raises/{common.exc_key(e)}/open", f"octal_to_decimal with an open argument raised {type(e).__name__}", dict(kind="octal", o=str(a), d=str(b), mode="open"))
    r.sample({"predicate": "octal_to_decimal", "octal_strings": len(octs), "decimal_strings": len(decs)})


# ------------------------------------------------------------------ crop / just

def just_expected(pred, s, w, c):
    """(holds, replacement string or None when the relation cannot be established by the predicate's operation)"""
    if pred == "crop":
        return (len(s) <= w), (s[:w] if len(s) > w else None)
    if len(s) == w:
        return True, None
    if pred == "ljust":
        return False, (s.ljust(w, c) if len(s) < w else None)
    if pred == "rjust":
        return False, (s.rjust(w, c) if len(s) < w else None)
    if pred == "ljust_crop":
        return False, s.ljust(w, c)[:w]
    if pred == "rjust_crop":
        x = s.rjust(w, c)
        return False, x[len(x) - w:]
    if pred == "extend_crop":
        return False, s.ljust(w, s[0])[:w]
    raise KeyError(pred)


def just_chunk(r, tier, lo, hi):
    from grammar_graph import gg
    from isla import isla_predicates as ip
    from isla.derivation_tree import DerivationTree as DT
    from isla.language import BoundVariable

    graph = gg.GrammarGraph.from_grammar(FIELD)
    cg = canon(FIELD)
    preds = {"crop": ip.CROP_PREDICATE, "ljust": ip.LJUST_PREDICATE, "rjust": ip.RJUST_PREDICATE, "ljust_crop": ip.LJUST_CROP_PREDICATE,
             "rjust_crop": ip.RJUST_CROP_PREDICATE, "extend_crop": ip.EXTEND_CROP_PREDICATE}
    for t in _field_trees(tier)[lo:hi]:
        ref = RT.with_ids(t)
        dt = RT.to_dt(ref)
        s = tstr(ref)
        r.state("just", t)
        for pname, P in preds.items():
            fills = [None] if pname in ("crop", "extend_crop") else ["0", " ", "a"]
            if pname == "extend_crop" and (not s or s != s[0] * len(s)):
                continue
            for w in range(0, 7):
                for c in fills:
                    for wmode in ("tree", "int"):
                        if wmode == "int" and pname == "crop":
                            continue
                        warg = DT(str(w), ()) if wmode == "tree" else w
                        args = (dt, warg) if c is None else (dt, warg, c)
                        case = dict(kind="just", pred=pname, tree=tjson(ref), w=w, c=c, wmode=wmode)
                        r.evals += 1
                        r.transitions += 1
                        holds, repl = just_expected(pname, s, w, c)
                        r.verdict((pname, wmode), holds)
                        try:
                            with time_cap(10):
                                res = P.evaluate(graph, *args)
                        except CaseTimeout:
                            r.caps["just_10s_cap"] += 1
                            continue
                        except Exception as e:  # noqa
                            cls = "too-long-for-width" if len(s) > w else "other"
                            r.viol(f"{pname}/raises/{type(e).__name__}/{cls}", f"{pname}({s!r}, {w}{'' if c is None else ', ' + repr(c)}) raised {type(e).__name__}: {str(e)[:80]}", case, "verdict or replacement", type(e).__name__)
                            continue
                        if holds:
                            if not (res.ready() and res.true()):
                                r.viol(f"{pname}/holds-but-not-true", f"{pname}({s!r}, {w}) should hold but gave {res}", case, True, str(res))
                            continue
                        if res.ready() and res.true():
                            r.viol(f"{pname}/true-although-width-differs", f"{pname}({s!r}, {w}) = True but len = {len(s)}", case, False, True)
                            continue
                        if res.ready() and res.false():
                            continue  # "does not hold" without a proposal is a correct verdict
                        if not res.ready():
                            r.viol(f"{pname}/not-ready-on-closed-arguments", f"{pname}({s!r}, {w}) gave 'not ready' for closed arguments", case)
                            continue
                        vals = list(res.result.values())
                        nref = RT.from_dt(vals[0])
                        ns = tstr(nref)
                        if nref[0] != ref[0] or RT.is_open(nref) or not RT.valid(cg, nref, allow_open=False):
                            r.viol(f"{pname}/replacement-invalid-tree", f"{pname}({s!r}, {w}, {c!r}) proposes an invalid tree {RT.strip_ids(nref)}", case)
                        elif repl is None or ns != repl:
                            r.viol(f"{pname}/replacement-wrong-string/width-{'0' if w == 0 else 'positive'}", f"{pname}({s!r}, {w}, {c!r}) proposes {ns!r}, expected {repl!r}", case, repl, ns)
            # variable width: binds the current length
            r.evals += 1
            try:
                args = (dt, BoundVariable("w", "NUM")) if pname in ("crop", "extend_crop") else (dt, BoundVariable("w", "NUM"), "0")
                if not (pname == "extend_crop" and not s):
                    res = P.evaluate(graph, *args)
                    vals = [str(v) for v in (res.result or {}).values()] if res.ready() and not res.true() and not res.false() else None
                    if vals != [str(len(s))]:
                        r.viol(f"{pname}/variable-width-wrong", f"{pname}({s!r}, w) binds w = {vals}, the length is {len(s)}", dict(kind="just", pred=pname, tree=tjson(ref), w=None, c=None, wmode="variable"))
            except Exception as e:  # noqa
                r.viol(f"{pname}/raises/{type(e).__name__}/variable-width", f"{pname}({s!r}, w) raised {type(e).__name__}", dict(kind="just", pred=pname, tree=tjson(ref), w=None, c=None, wmode="variable"))
        r.sample({"predicates": list(preds), "argument": s, "widths": "0..6"}, limit=1)


def run_chunk(chunk):
    r = Result()
    if chunk["kind"] == "count":
        count_chunk(r, chunk["g"], chunk["tier"], chunk["lo"], chunk["hi"])
    elif chunk["kind"] == "octal":
        octal_chunk(r, chunk["tier"], chunk["part"])
    else:
        just_chunk(r, chunk["tier"], chunk["lo"], chunk["hi"])
    return r


def replay(case):
    """re-runs the chunk family that contains the case and filters (cases are cheap)"""
    r = Result(keep_all=True)
    if case["kind"] == "octal":
        for part in (0, 1):
            octal_chunk(r, "quick", part)
        return [v for v in r.viols if v["case"].get("o") == case.get("o") and v["case"].get("d") == case.get("d") and v["case"]["mode"] == case["mode"]]
    if case["kind"] == "just":
        F = _field_trees("thorough")
        want = RT.strip_ids(from_tjson(case["tree"]))
        idx = [i for i, t in enumerate(F) if t == want]
        for i in idx:
            just_chunk(r, "thorough", i, i + 1)
        return [v for v in r.viols if v["case"]["pred"] == case["pred"] and v["case"]["w"] == case["w"] and v["case"]["c"] == case["c"] and v["case"]["wmode"] == case["wmode"]]
    name = case["g"]
    for tier in ("quick",):
        n = len(_count_trees(name, tier))
        count_chunk(r, name, tier, 0, n)
    return [v for v in r.viols if v["case"]["needle"] == case["needle"] and v["case"]["k"] == case["k"] and v["case"]["mode"] == case["mode"] and v["case"]["tree"] == case["tree"]][:1]
