"""C02 — solve() only returns solutions or signals exhaustion/timeout, then stays so.

(1) lifecycle on the C01 instances: every call's outcome must be a tree, StopIteration or
    TimeoutError (timeout configured); after the first sink outcome three more calls must give
    the same sink outcome.
(2) operator sweep: every SMT-LIB operator skeleton of C05 as a solver constraint.
(3) virtual clock: with timeout_seconds set, "the deadline has passed" is placed at every poll
    index k <= K of the run; after the resulting TimeoutError three more calls are made with the
    clock standing still or advancing further (it never goes back).
"""
import os

from .. import solvdrv
from ..ref import sem, smt
from ..ref.reftree import canon, tstr
from ..runner import Result
from ..universe import grammars as GR
from . import common, c01, c05
from .c03 import atom_kinds, _from_fj

PROPERTY = "C02"
LEVEL = "model_checking"
RULE = (
    "(1) the C01 instance set (grammar x constraint schema x settings), 4 solve() calls + 3 calls after the first StopIteration/TimeoutError; "
    "(2) every operator skeleton of the C05 alphabet, plain and negated, as 'exists <x> x: exists <y> y: atom(x, y)' over a five-word grammar, 3 calls + 2 extra; "
    "(3) 8 instances with many solutions x deadline placed at every clock poll index 0..K (K = polls of a 6-call run, <= 40) x clock "
    "standing still / advancing afterwards, 3 extra calls; the lifecycle automaton ACTIVE -> {ACTIVE, EXHAUSTED, TIMED_OUT} with absorbing "
    "sinks is the oracle; a schema is (part, grammar, constraint schema); non-trivial iff at least two different outcome kinds occurred"
)
ASSUMPTIONS = [
    "a call cut by the harness' wall-clock cap ends the observation of that instance (counted as cap, never judged)",
    "TimeoutError is acceptable only when timeout_seconds is configured (all instances configure it so that runs are bounded)",
]
TASKS_PER_CHILD = 2
SEED = c01.SEED

OPG = {"<start>": ["<p>"], "<p>": ["<x> <y>"], "<x>": ["<w>"], "<y>": ["<w>"], "<w>": ["a", "ab", "7", "12", ""]}


def op_instances(tier):
    sk = c05.skeletons("quick")
    if tier == "quick":
        # one skeleton per operator nest
        seen = set()
        out = []
        for e, fam in sk:
            k = c05.op_key(e)
            if k not in seen:
                seen.add(k)
                out.append((e, fam))
        sk = out
    # every skeleton also negated (the solver then needs values at the operator's boundary cases)
    negfams = ("strint", "strfun", "strpred", "toint")
    return [(e, fam, neg) for e, fam in sk for neg in (False, True) if not neg or tier == "thorough" or fam in negfams]


def clock_instances():
    A = "assgn"
    L = "list"
    return [
        (A, ("true",)),
        (A, ("exists", "<stmt>", "s", None, "start", ("smt", ["=", ["str.len", ["v", "s"]], ["i", 6]]))),
        (A, ("forall", "<assgn>", "a", (("b", "<var>", "l"), ("t", " := "), ("nt", "<rhs>")), "start", ("smt", ["=", ["v", "l"], ["s", "x"]]))),
        (A, ("exists", "<assgn>", "a", (("b", "<var>", "l"), ("t", " := "), ("b", "<rhs>", "rr")), "start", ("smt", ["=", ["v", "l"], ["v", "rr"]]))),
        (L, ("true",)),
        (L, ("forall", "<num>", "n", None, "start", ("smt", [">=", ["str.to.int", ["v", "n"]], ["i", 1]]))),
        (L, ("exists_int", "k", ("and", ("count", "start", "<num>", ("v", "k")), ("smt", [">=", ["str.to.int", ["v", "k"]], ["i", 2]])))),
        (L, ("exists", "<list>", "l", None, "start", ("pred", "inside", (), "l", "start"))),
    ]


def chunks(tier, seed):
    out = []
    I = c01.instances(tier)
    per = 3
    for i in range(0, len(I), per):
        out.append(dict(kind="life", lo=i, hi=min(len(I), i + per), tier=tier))
    O = op_instances(tier)
    for i in range(0, len(O), 8):
        out.append(dict(kind="ops", lo=i, hi=min(len(O), i + 8), tier=tier))
    for i in range(len(clock_instances())):
        out.append(dict(kind="clock", idx=i, tier=tier))
    return out


def judge(r, outs, sch, what, case, timeout_configured=True):
    """the lifecycle automaton over the recorded outcomes"""
    state = "ACTIVE"
    kinds = set()
    for k, o in enumerate(outs):
        r.evals += 1
        kind = o[0]
        kinds.add(kind)
        r.outcomes[kind] += 1
        if kind == "cap":
            r.caps["solve_call_wallclock_cap"] += 1
            break
        if kind == "ctor-exc":
            # the constructor (parser, well-formedness checks) rejected the constraint: outside the property's domain
            break
        if kind == "exc":
            r.viol(f"raises/{o[1]}", f"{what}: call {k + 1} raised {o[2]}", dict(case, call=k + 1), "tree, StopIteration or TimeoutError", o[1])
            break
        if kind == "timeout" and not timeout_configured:
            r.viol("timeout-without-timeout-configured", f"{what}: call {k + 1} raised TimeoutError although no timeout is configured", dict(case, call=k + 1))
            break
        if state == "ACTIVE":
            if kind == "stop":
                state = "EXHAUSTED"
            elif kind == "timeout":
                state = "TIMED_OUT"
        else:
            want = "stop" if state == "EXHAUSTED" else "timeout"
            if kind != want:
                got = "returned a tree " + repr(tstr(o[1])) if kind == "tree" else f"raised {kind}"
                r.viol(f"not-sticky/{state}-then-{kind}", f"{what}: after {state} (call {k}) call {k + 1} {got}", dict(case, call=k + 1), want, kind)
                break
    for kd in kinds:
        r.verdict(sch, kd)


def run_chunk(chunk):
    r = Result()
    tier = chunk["tier"]
    if chunk["kind"] == "life":
        for name, f, sname, _dev in c01.instances(tier)[chunk["lo"]:chunk["hi"]]:
            g = GR.cat(name)
            text = sem.to_isla(f)
            settings = dict(dict(c01.SETTINGS)[sname])
            settings.setdefault("timeout_seconds", 4)
            r.state("life", name, text, sname)
            outs, info = solvdrv.drive(g, text, settings, 4, extra_calls=3, default_seed=SEED, call_cap=12.0 if tier == "quick" else 20.0, total_cap=24.0 if tier == "quick" else 70.0)
            r.transitions += info["steps"]
            judge(r, outs, ("life", name, sem.schema(f)), f"ISLaSolver({name}, {text!r}, {sname})", dict(kind="life", g=name, formula=f, setting=sname))
            r.sample({"part": "lifecycle", "grammar": name, "constraint": text, "setting": sname, "outcomes": [o[0] for o in outs]}, limit=2)
        return r
    if chunk["kind"] == "ops":
        for e, fam, neg in op_instances(tier)[chunk["lo"]:chunk["hi"]]:
            names = smt.variables(e)
            body = smt.to_isla(e)
            if neg:
                body = f"not ({body})"
            for n in reversed(names):
                body = f"exists <{n}> {n} in start: ({body})"
            r.state("ops", body)
            outs, info = solvdrv.drive(OPG, body, {"timeout_seconds": 4}, 3, extra_calls=2, default_seed=SEED, call_cap=12.0, total_cap=24.0)
            r.transitions += info["steps"]
            judge(r, outs, ("ops", c05.op_key(e), neg), f"ISLaSolver(two-word grammar, {body!r})", dict(kind="ops", e=e, neg=neg))
            r.sample({"part": "operator sweep", "constraint": body, "outcomes": [o[0] for o in outs]}, limit=2)
        return r
    # virtual clock
    name, f = clock_instances()[chunk["idx"]]
    g = GR.cat(name)
    text = sem.to_isla(f)
    settings = {"timeout_seconds": 5}
    probe = solvdrv.VirtualClock(None)
    outs, info = solvdrv.drive(g, text, settings, 6, extra_calls=0, default_seed=SEED, clock=probe, call_cap=10.0, total_cap=40.0)
    K = min(probe.polls, 40 if tier == "quick" else 120)
    r.extra["clock_polls_in_probe_run"] += probe.polls
    for k in range(1, K + 1):  # poll 0 is the reading of the start time itself
        for adv in (False, True):
            clock = solvdrv.VirtualClock(k, adv)
            r.state("clock", name, text, k, adv)
            outs, info = solvdrv.drive(g, text, settings, 8, extra_calls=3, default_seed=SEED, clock=clock, call_cap=10.0, total_cap=40.0)
            r.transitions += info["steps"]
            judge(r, outs, ("clock", name, sem.schema(f)), f"ISLaSolver({name}, {text!r}, timeout_seconds=5) with the deadline passing at clock poll {k} (clock {'advancing' if adv else 'standing still'} afterwards)",
                  dict(kind="clock", idx=chunk["idx"], k=k, adv=adv))
    r.sample({"part": "virtual clock", "grammar": name, "constraint": text, "deadline_positions": K + 1, "polls_in_probe_run": probe.polls})
    return r


def replay(case):
    r = Result()
    if case["kind"] == "life":
        f = _from_fj(case["formula"])
        name = case["g"]
        settings = dict(dict(c01.SETTINGS)[case["setting"]])
        settings.setdefault("timeout_seconds", 4)
        outs, info = solvdrv.drive(GR.cat(name), sem.to_isla(f), settings, 4, extra_calls=3, default_seed=SEED, call_cap=20.0, total_cap=120.0)
        judge(r, outs, ("life",), f"ISLaSolver({name}, {sem.to_isla(f)!r}, {case['setting']})", case)
        return r.viols
    if case["kind"] == "ops":
        e = case["e"]
        names = smt.variables(e)
        body = smt.to_isla(e)
        if case.get("neg"):
            body = f"not ({body})"
        for n in reversed(names):
            body = f"exists <{n}> {n} in start: ({body})"
        outs, info = solvdrv.drive(OPG, body, {"timeout_seconds": 8}, 3, extra_calls=2, default_seed=SEED, call_cap=20.0, total_cap=60.0)
        judge(r, outs, ("ops",), f"ISLaSolver(two-word grammar, {body!r})", case)
        return r.viols
    name, f = clock_instances()[case["idx"]]
    clock = solvdrv.VirtualClock(case["k"], case["adv"])
    outs, info = solvdrv.drive(GR.cat(name), sem.to_isla(f), {"timeout_seconds": 5}, 8, extra_calls=3, default_seed=SEED, clock=clock, call_cap=20.0, total_cap=80.0)
    judge(r, outs, ("clock",), f"ISLaSolver({name}, {sem.to_isla(f)!r}) deadline at poll {case['k']}", case)
    return r.viols
