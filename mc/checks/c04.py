"""C04 — structural predicates have their documented meaning for every pair of nodes.

Enumerates all trees <= bound of several catalogue grammars x ALL ordered node pairs x
every structural predicate (nth N in 0..4, level over all operators x nonterminals) and
compares three observation points with mc.ref.refpred:
  direct : StructuralPredicate.evaluate(tree, path_1, path_2)
  formula: evaluate(StructuralPredicateFormula(pred, subtree_1, subtree_2), tree, G)
  quant  : evaluate("exists <T1> a: exists <T2> b: pred(a, b)", tree, G) (and forall/forall)
"""
import itertools

from ..ref import refpred
from ..ref.reftree import canon, paths, at, is_nt, with_ids, to_dt, tjson, from_tjson, size, tstr
from ..runner import Result, time_cap, CaseTimeout
from ..universe import grammars as GR
from ..universe.trees import closed_trees

PROPERTY = "C04"
LEVEL = "model_checking"
RULE = (
    "all closed trees of catalogue grammars up to a depth/node bound x all ordered node pairs "
    "(identical, nested, ordered both ways) x {before, after, inside, direct_child, same_position, "
    "different_position, consecutive, nth 0..4 (there is no 0-th occurrence), level x 5 operators x every nonterminal}; a schema is "
    "(grammar, predicate instance, entry point); it is non-trivial if both True and False were observed"
)
ASSUMPTIONS = [
    "reference = document-order pre/post indices (mc/ref/refpred.py); consecutive in reverse order, nth where "
    "node_2 carries node_1's label, and level where an argument itself carries NONTERMINAL are accepted either way",
    "nth is only called with a nonterminal-labelled node_1 (the implementation asserts this; variables bound by "
    "quantifiers are always nonterminal-typed)",
]
TASKS_PER_CHILD = 4

BINARY = ["before", "after", "inside", "direct_child", "same_position", "different_position", "consecutive"]
LEVEL_OPS = ["EQ", "GE", "LE", "GT", "LT"]


def _trees(name, tier):
    g = GR.cat(name)
    cg = canon(g)
    if name == "assgn":
        ts = closed_trees(cg, "<start>", 7 if tier == "thorough" else 6, max_nodes=34 if tier == "thorough" else 22)
    elif name == "block":
        ts = closed_trees(cg, "<start>", 8 if tier == "thorough" else 6, max_nodes=30 if tier == "thorough" else 18)
    elif name == "null":
        ts = closed_trees(cg, "<start>", 6, eps_leaf="node") + closed_trees(cg, "<start>", 5, eps_leaf="empty")
    elif name == "list":
        ts = closed_trees(cg, "<start>", 6 if tier == "thorough" else 5, max_nodes=24 if tier == "thorough" else 14)
    elif name == "wide":
        # the 32-child row: two variants are enough, every pair of children is enumerated
        row = lambda s: ("<start>", (("<row>", tuple(("<c>", ((ch, ()),)) for ch in s)),))
        ts = [row("x" * 31 + "y"), row("xy" * 16)]
    else:
        raise KeyError(name)
    return g, cg, ts


def chunks(tier, seed):
    out = []
    for name in ["assgn", "block", "null", "list", "wide"]:
        g, cg, ts = _trees(name, tier)
        per = 1 if name == "wide" else (6 if tier == "quick" else 4)
        for i in range(0, len(ts), per):
            # every 5th chunk also goes through the (slower) evaluate() entry points
            out.append(dict(g=name, trees=ts[i:i + per], tier=tier, via_eval=(i // per) % (3 if tier == "thorough" else 5) == 0))
    return out


def _rel(idx, a, b):
    if a == b:
        return "identical"
    if refpred.inside(idx, b, a):
        return "a-ancestor-of-b"
    if refpred.inside(idx, a, b):
        return "a-below-b"
    return "a-first" if refpred.before(idx, a, b) else "b-first"


def _lcp(a, b):
    k = 0
    while k < min(len(a), len(b)) and a[k] == b[k]:
        k += 1
    return a[:k]


def _instances(cg):
    inst = [(p, ()) for p in BINARY]
    inst += [("nth", (n,)) for n in (0, 1, 2, 3, 4)]
    inst += [("level", (op, nt)) for op in LEVEL_OPS for nt in cg if nt != "<start>"]
    return inst


def _preds():
    from isla import isla_predicates as ip

    return {p.name: p for p in ip.STANDARD_STRUCTURAL_PREDICATES}


def _call_direct(P, name, extra, dt, a, b):
    if name == "nth":
        return P[name].evaluate(dt, str(extra[0]), a, b)
    if name == "level":
        return P[name].evaluate(dt, extra[0], extra[1], a, b)
    return P[name].evaluate(dt, a, b)


def check_pair(r, P, gname, root, dt, idx, name, extra, a, b, entry, graph=None, grammar=None):
    """One comparison; returns nothing, records into r."""
    exp = refpred.pred(name, root, a, b, idx=idx, extra=extra)
    try:
        if entry == "direct":
            got = _call_direct(P, name, extra, dt, a, b)
        else:
            from isla.language import StructuralPredicateFormula
            from isla.evaluator import evaluate

            sa, sb = dt.get_subtree(a), dt.get_subtree(b)
            args = ([str(extra[0])] if name == "nth" else list(extra)) + [sa, sb]
            v = evaluate(StructuralPredicateFormula(P[name], *args), dt, grammar, graph=graph)
            got = True if v.is_true() else False if v.is_false() else "UNKNOWN"
    except CaseTimeout:
        raise
    except Exception as e:  # noqa
        got = f"EXC:{type(e).__name__}"
    r.evals += 1
    r.transitions += 1
    schema = (gname, name, extra, entry)
    if exp is refpred.EITHER:
        r.outcomes["either"] += 1
        if isinstance(got, str):
            rel = _rel(idx, a, b)
            r.viol(f"{name}/{rel}/{got}/{entry}", f"{name}{extra} raised/unknown {got} on paths {a},{b} of {tstr(root)!r}",
                   _case(gname, root, name, extra, a, b, entry), "no exception", got)
        return
    r.verdict(schema, exp)
    r.outcomes[f"{name}:{exp}"] += 1
    if got != exp:
        rel = _rel(idx, a, b)
        key = f"{name}/{rel}/expected-{exp}-got-{got}/{entry}"
        if name == "consecutive" and exp is False and got is True and rel == "a-first" and _lcp(a, b) != ():
            # one root cause through every entry point: leaves below the longest common prefix are
            # enumerated with paths relative to it but compared with absolute argument paths
            key = "consecutive/leaf-in-between-missed/common-prefix-not-root"
        r.viol(
            key,
            f"{name}{extra} on paths {a} vs {b} ({rel}) in tree {tstr(root)!r}: reference {exp}, isla {got} [{entry}]",
            _case(gname, root, name, extra, a, b, entry),
            exp,
            got,
        )


def _case(gname, root, name, extra, a, b, entry):
    return dict(g=gname, tree=tjson(root), pred=name, extra=list(extra), a=list(a), b=list(b), entry=entry)


def _quant_checks(r, P, gname, g, cg, root, dt, idx, graph):
    """exists/exists and forall/forall over label pairs, through concrete syntax."""
    from isla.evaluator import evaluate

    nodes = {}
    for p, st in paths(root):
        if is_nt(st[0]) and st[0] != "<start>":
            nodes.setdefault(st[0], []).append(p)
    labs = sorted(nodes)
    for name in BINARY:
        for T1, T2 in itertools.product(labs, repeat=2):
            vals = [refpred.pred(name, root, a, b, idx=idx) for a in nodes[T1] for b in nodes[T2]]
            for q, agg in (("exists", any), ("forall", all)):
                definite = [v for v in vals if v is not refpred.EITHER]
                if len(definite) != len(vals):
                    # an EITHER decides only if the definite part already decides
                    if q == "exists" and any(definite):
                        exp = True
                    elif q == "forall" and not all(definite):
                        exp = False
                    else:
                        continue
                else:
                    exp = agg(vals)
                txt = f"{q} {T1} a in start: {q} {T2} b in start: {name}(a, b)"
                try:
                    v = evaluate(txt, dt, g, graph=graph)
                    got = True if v.is_true() else False if v.is_false() else "UNKNOWN"
                except CaseTimeout:
                    raise
                except Exception as e:  # noqa
                    got = f"EXC:{type(e).__name__}"
                r.evals += 1
                r.transitions += 1
                r.verdict((gname, name, q, T1, T2, "quant"), exp)
                if got == exp and (T1, T2) == (labs[0], labs[-1]):
                    # the same formula through the numeric-quantifier evaluation strategy (quantifier elimination)
                    wrapped = f'exists int nq: (count(start, "{labs[0]}", nq) and {txt})'
                    try:
                        v2 = evaluate(wrapped, dt, g, graph=graph)
                        got2 = True if v2.is_true() else False if v2.is_false() else "UNKNOWN"
                    except CaseTimeout:
                        raise
                    except Exception as e:  # noqa
                        got2 = f"EXC:{type(e).__name__}"
                    r.evals += 1
                    r.verdict((gname, name, q, "numq"), exp)
                    if got2 != exp:
                        r.viol(f"{name}/quantified-numeric-strategy/expected-{exp}-got-{got2}", f"{wrapped!r} on {tstr(root)!r}: reference {exp}, isla {got2}",
                               dict(g=gname, tree=tjson(root), quant=txt, pred=name, T1=T1, T2=T2, q=q, entry="quant"), exp, got2)
                if got != exp:
                    r.viol(
                        f"{name}/quantified/expected-{exp}-got-{got}",
                        f"{txt!r} on {tstr(root)!r}: reference {exp}, isla {got}",
                        dict(g=gname, tree=tjson(root), quant=txt, pred=name, T1=T1, T2=T2, q=q, entry="quant"),
                        exp,
                        got,
                    )


def _root_arg_checks(r, gname, g, root, dt, idx, graph):
    """the root (the constant) as predicate argument, plain and through the numeric-quantifier strategy"""
    from isla.evaluator import evaluate

    labs = sorted({st[0] for p, st in paths(root) if is_nt(st[0]) and p})
    for T in labs[:3]:
        nodes = [p for p, st in paths(root) if st[0] == T]
        for name, order in (("inside", "a,start"), ("before", "start,a"), ("direct_child", "a,start"), ("same_position", "start,a"), ("after", "a,start")):
            pa = (lambda p: (p, ())) if order == "a,start" else (lambda p: ((), p))
            vals = [refpred.pred(name, root, *pa(p), idx=idx) for p in nodes]
            if any(v is refpred.EITHER for v in vals):
                continue
            for q, agg in (("forall", all), ("exists", any)):
                exp = agg(vals)
                core = f"{q} {T} a in start: {name}({order})"
                for txt in (core, f'exists int nq: (count(start, "{T}", nq) and {core})'):
                    try:
                        v = evaluate(txt, dt, g, graph=graph)
                        got = True if v.is_true() else False if v.is_false() else "UNKNOWN"
                    except CaseTimeout:
                        raise
                    except Exception as e:  # noqa
                        got = f"EXC:{type(e).__name__}"
                    r.evals += 1
                    r.transitions += 1
                    r.verdict((gname, name, q, "root-arg", "numq" if "nq" in txt else "plain"), exp)
                    if got != exp:
                        r.viol(f"{name}/root-as-argument/{'numeric-strategy' if 'nq' in txt else 'plain'}/expected-{exp}-got-{got}", f"{txt!r} on {tstr(root)!r}: reference {exp}, isla {got}",
                               dict(g=gname, tree=tjson(root), quant=txt, pred=name, T1=T, T2="<start>", q=q, entry="rootarg"), exp, got)


def run_chunk(chunk):
    from grammar_graph import gg

    r = Result()
    gname = chunk["g"]
    g = GR.cat(gname)
    cg = canon(g)
    graph = gg.GrammarGraph.from_grammar(g)
    P = _preds()
    inst = _instances(cg)
    for t in chunk["trees"]:
        root = with_ids(t)
        dt = to_dt(root)
        idx = refpred.prepost(root)
        allp = [p for p, _ in paths(root)]
        r.state(gname, t)
        try:
            with time_cap(600):
                for a, b in itertools.product(allp, repeat=2):
                    la = at(root, a)[0]
                    for name, extra in inst:
                        if name == "nth" and not is_nt(la):
                            continue
                        check_pair(r, P, gname, root, dt, idx, name, extra, a, b, "direct")
                if chunk["via_eval"] and gname != "wide":
                    for a, b in itertools.product(allp, repeat=2):
                        for name, extra in inst:
                            if name == "level" and extra[0] not in ("EQ", "GT"):
                                continue
                            if name == "nth" and not is_nt(at(root, a)[0]):
                                continue
                            check_pair(r, P, gname, root, dt, idx, name, extra, a, b, "formula", graph=graph, grammar=g)
                    _quant_checks(r, P, gname, g, cg, root, dt, idx, graph)
                    _root_arg_checks(r, gname, g, root, dt, idx, graph)
        except CaseTimeout:
            r.caps["tree_timeout_600s"] += 1
        r.sample({"grammar": gname, "tree": tstr(root), "nodes": len(allp), "pairs": len(allp) ** 2, "predicate_instances": len(inst)})
    return r


def replay(case):
    from grammar_graph import gg

    r = Result()
    gname = case["g"]
    g = GR.cat(gname)
    cg = canon(g)
    root = from_tjson(case["tree"])
    dt = to_dt(root)
    idx = refpred.prepost(root)
    P = _preds()
    graph = gg.GrammarGraph.from_grammar(g)
    if case["entry"] == "rootarg":
        r2 = Result(keep_all=True)
        _root_arg_checks(r2, gname, g, root, dt, idx, graph)
        return [v for v in r2.viols if v["case"].get("quant") == case["quant"]]
    if case["entry"] == "quant":
        # re-run only the label pair of the recorded case
        r2 = Result(keep_all=True)
        _quant_checks(r2, P, gname, g, cg, root, dt, idx, graph)
        return [v for v in r2.viols if v["case"].get("quant") == case["quant"]]
    extra = tuple(case["extra"])
    check_pair(r, P, gname, root, dt, idx, case["pred"], extra, tuple(case["a"]), tuple(case["b"]), case["entry"], graph=graph, grammar=g)
    return r.viols
