"""C03 — evaluate() / ISLaSolver.check() agree with the language specification on closed trees.

For each catalogue grammar: ALL closed trees up to the tier's bound x ALL formulas of the typed
formula universe, through four entry points:
  eval   evaluate(parsed formula, tree, grammar)                        (assignment-based path)
  text   evaluate(concrete syntax, tree, grammar)                       (every 7th formula)
  numq   the same formula wrapped in exists-int/forall-int + count      (quantifier-elimination path)
  check  ISLaSolver(grammar, text).check(tree)
Oracle: mc.ref.sem (the satisfaction relation as written in islaspec.rst, Z3 for atoms).
"""
import itertools

from ..ref import sem
from ..ref.reftree import canon, with_ids, to_dt, tstr, tjson, from_tjson
from ..runner import Result, time_cap, CaseTimeout
from ..universe import grammars as GR
from . import common

PROPERTY = "C03"
LEVEL = "model_checking"
RULE = (
    "catalogue grammars (assgn, list, block, null incl. both epsilon encodings, signed, tags, 32-child wide row, 30 structured cells) x all closed "
    "trees up to a depth/node bound x all formulas of the typed universe (<=2 tree quantifiers, match expressions with 0-2 "
    "bindings and optionals, numeric quantifiers with count, all structural predicates, =/str.len/str.to.int atoms, negation, "
    "and/or) x entry points {evaluate(AST), evaluate(text), numeric-quantifier wrapping, ISLaSolver.check}; a schema is a formula "
    "with constants blanked + entry point; non-trivial iff both verdicts were demanded by the reference"
)
ASSUMPTIONS = [
    "reference semantics mc/ref/sem.py = islaspec.rst 'Semantics' (reflexive subtrees, spec's match(), count includes the root); "
    "EITHER (any answer accepted) for: ambiguous or epsilon-expanding match expressions, str.to.int on non-numerals, count when the "
    "root of in_tree is itself a needle and that decides, nth/level/consecutive corners listed under C04",
    "Z3 (same z3 module ISLa uses) decides ground atoms",
    "one variable name has one type per formula in the main universe; formulas re-using a name with another type are a separate class",
]
TASKS_PER_CHILD = 6

GRAMS = ["assgn", "list", "block", "null", "signed", "tags", "wide", "wide2"]


def _profile(name, tier):
    if name in ("wide", "wide2"):
        return "small"
    return "std" if tier == "thorough" else "std"


def _wide_forms():
    """hand-picked for the 32-child row: every formula must look at children beyond index 27"""
    q = lambda k, T, v, m, i, b: (k, T, v, m, i, b)
    eqx = lambda v: ("smt", ["=", ["v", v], ["s", "x"]])
    F = []
    for k in ("forall", "exists"):
        F.append(q(k, "<c>", "a", None, "start", eqx("a")))
        F.append(q(k, "<c>", "a", None, "start", ("not", eqx("a"))))
        F.append(q(k, "<row>", "r", None, "start", q(k, "<c>", "a", None, "r", eqx("a"))))
    for n in ("30", "31", "32"):
        F.append(("count", "start", "<c>", ("s", n)))
    F.append(("exists_int", "n", ("and", ("count", "start", "<c>", ("v", "n")), ("smt", [">=", ["str.to.int", ["v", "n"]], ["i", 32]]))))
    for i in (0, 26, 27, 28, 31):
        m = tuple(("b", "<c>", "m1") if j == i else ("nt", "<c>") for j in range(32))
        for k in ("forall", "exists"):
            F.append(q(k, "<row>", "r", m, "start", eqx("m1")))
    for p in ("before", "after", "consecutive", "same_position", "different_position", "inside", "direct_child"):
        F.append(q("exists", "<c>", "a", None, "start", q("forall", "<c>", "b", None, "start", ("or", ("pred", p, (), "a", "b"), eqx("b")))))
        F.append(q("forall", "<c>", "a", None, "start", q("exists", "<c>", "b", None, "start", ("and", ("pred", p, (), "a", "b"), ("not", eqx("b"))))))
    for n in (1, 28, 29, 32):
        F.append(q("exists", "<row>", "r", None, "start", q("exists", "<c>", "a", None, "start", ("and", ("pred", "nth", (n,), "a", "r"), ("not", eqx("a"))))))
    return F


def _wide2_forms():
    """30 structured cells: quantifiers nested IN a cell (also the cells at index >= 27), with and without match expressions"""
    q = lambda k, T, v, m, i, b: (k, T, v, m, i, b)
    eq = lambda v, s: ("smt", ["=", ["v", v], ["s", s]])
    F = []
    for k1, k2 in itertools.product(("forall", "exists"), repeat=2):
        F.append(q(k1, "<c>", "c", None, "start", q(k2, "<k>", "k", None, "c", eq("k", "a"))))
        F.append(q(k1, "<c>", "c", None, "start", q(k2, "<v>", "w", None, "c", eq("w", "1"))))
        F.append(q(k1, "<c>", "c", None, "start", q(k2, "<p>", "p", None, "c", q(k2, "<k>", "k", None, "p", eq("k", "a")))))
        F.append(q(k1, "<p>", "p", None, "start", q(k2, "<v>", "w", None, "p", ("not", eq("w", "0")))))
        F.append(q(k1, "<row>", "r", None, "start", q(k2, "<c>", "c", None, "r", q(k1, "<v>", "w", None, "c", eq("w", "0")))))
        m = (("b", "<k>", "mk"), ("t", "="), ("b", "<v>", "mv"))
        F.append(q(k1, "<c>", "c", None, "start", q(k2, "<p>", "p", m, "c", ("or", eq("mk", "a"), eq("mv", "1")))))
    F.append(q("forall", "<c>", "c", None, "start", q("forall", "<k>", "k", None, "c", q("forall", "<v>", "w", None, "c", ("pred", "before", (), "k", "w")))))
    F.append(q("exists", "<c>", "c", None, "start", q("exists", "<k>", "k", None, "c", q("exists", "<v>", "w", None, "c", ("and", ("pred", "before", (), "k", "w"), ("and", eq("k", "b"), eq("w", "0")))))))
    F.append(q("forall", "<c>", "c", None, "start", q("exists", "<k>", "k", None, "c", ("pred", "inside", (), "k", "c"))))
    F.append(q("exists", "<c>", "c", None, "start", ("and", q("exists", "<k>", "k", None, "c", eq("k", "b")), q("exists", "<v>", "w", None, "c", eq("w", "0")))))
    return F


def _forms(name, tier):
    if name == "wide":
        return _wide_forms()
    if name == "wide2":
        return _wide2_forms()
    F = common.formulas_of(name, _profile(name, tier))
    if tier == "quick" and len(F) > 1400:
        # quick: every formula class is kept, the long two-quantifier product is thinned deterministically
        one = [f for f in F if not (f[0] in ("forall", "exists") and f[5][0] in ("forall", "exists") and f[3] is None and f[5][3] is None)]
        two = [f for f in F if (f[0] in ("forall", "exists") and f[5][0] in ("forall", "exists") and f[3] is None and f[5][3] is None)]
        F = one + two[:: max(1, len(two) // 350)]
    return F


def shadow_formulas(cg):
    """same bound-variable name, two different types, in sibling quantifiers"""
    types = [t for t in cg if t != "<start>"]
    out = []
    for T1, T2 in itertools.permutations(types[:4], 2):
        a1 = ("smt", ["=", ["str.len", ["v", "a"]], ["i", 1]])
        out.append(("and", ("forall", T1, "a", None, "start", a1), ("forall", T2, "a", None, "start", a1)))
        out.append(("or", ("forall", T1, "a", None, "start", a1), ("not", ("forall", T2, "a", None, "start", a1))))
    return out


def chunks(tier, seed):
    out = []
    for name in GRAMS:
        F = _forms(name, tier)
        per = 40 if name not in ("wide", "wide2") else 12
        for i in range(0, len(F), per):
            out.append(dict(g=name, lo=i, hi=min(len(F), i + per), tier=tier, shadow=False))
        if name in ("assgn", "list"):
            out.append(dict(g=name, lo=0, hi=0, tier=tier, shadow=True))
    return out


def atom_kinds(f, acc=None):
    acc = set() if acc is None else acc
    k = f[0]
    if k in ("forall", "exists"):
        if f[3] is not None:
            acc.add("mexpr")
            if any(e[0] == "opt" for e in f[3]):
                acc.add("optional")
        if f[4] != "start":
            acc.add("in-var")
        atom_kinds(f[5], acc)
    elif k in ("forall_int", "exists_int"):
        acc.add("forall-int" if k == "forall_int" else "exists-int")
        atom_kinds(f[2], acc)
    elif k in ("not", "and", "or"):
        for g in f[1:]:
            atom_kinds(g, acc)
    elif k == "smt":
        acc.add("smt:" + _ops(f[1]))
    elif k == "pred":
        acc.add(f[1])
    elif k == "count":
        acc.add("count")
    return acc


def _ops(e):
    ops = []

    def rec(x):
        if isinstance(x, list) and x[0] not in ("v", "s", "i"):
            ops.append(x[0])
            for a in x[1:]:
                rec(a)

    rec(e)
    return "+".join(ops)


def _has_root_arg(f):
    """a structural predicate with the constant (root) as an argument: always also sent through the numeric-quantifier path"""
    k = f[0]
    if k in ("forall", "exists"):
        return _has_root_arg(f[5])
    if k in ("not", "and", "or"):
        return any(_has_root_arg(g) for g in f[1:])
    return k == "pred" and "start" in (f[3], f[4])


def wrap_numq(f, needle, kind):
    c = ("count", "start", needle, ("v", "nq"))
    if kind == "exists":
        return ("exists_int", "nq", ("and", c, f))
    return ("forall_int", "nq", ("or", ("not", c), f))


def observe(entry, g, text, parsed, dt, solver=None):
    from isla.evaluator import evaluate

    try:
        if entry == "check":
            return bool(solver.check(dt))
        if entry == "text":
            return common.tv(evaluate(text, dt, g))
        return common.tv(evaluate(parsed, dt, g))
    except CaseTimeout:
        raise
    except Exception as e:  # noqa
        return "EXC:" + common.exc_key(e)


def compare(r, gname, root, f, entry, exp, got, text, shadow=False):
    r.evals += 1
    r.transitions += 1
    if exp is sem.EITHER:
        r.outcomes["either"] += 1
        if isinstance(got, str) and got.startswith("EXC"):
            r.viol(f"{entry}/raises-on-undetermined/{got}", f"{text!r} on {tstr(root)!r}: {got}", _case(gname, root, f, entry), "no exception", got)
        return
    r.verdict((gname, sem.schema(f), entry), exp)
    r.outcomes[f"{entry}:{exp}"] += 1
    if got != exp:
        kinds = ",".join(sorted(atom_kinds(f)))
        key = f"{entry}/{kinds}/expected-{exp}-got-{got}"
        if shadow:
            key = "parser/same-variable-name-bound-with-two-types"
        r.viol(key, f"{text!r} on {tstr(root)!r}: specification says {exp}, isla {got} [{entry}]", _case(gname, root, f, entry), exp, got)


def _case(gname, root, f, entry):
    return dict(g=gname, tree=tjson(root), formula=_fj(f), entry=entry)


def _fj(f):
    return f  # tuples/lists/strings only: JSON-able


def _from_fj(j):
    if isinstance(j, list):
        if j and j[0] in ("smt",):
            return ("smt", j[1])
        if j and isinstance(j[0], str) and j[0] in ("forall", "exists", "forall_int", "exists_int", "not", "and", "or", "pred", "count", "true", "false"):
            k = j[0]
            if k in ("forall", "exists"):
                m = None if j[3] is None else _mx(j[3])
                return (k, j[1], j[2], m, j[4], _from_fj(j[5]))
            if k in ("forall_int", "exists_int"):
                return (k, j[1], _from_fj(j[2]))
            if k in ("not", "and", "or"):
                return (k,) + tuple(_from_fj(x) for x in j[1:])
            if k == "pred":
                return (k, j[1], tuple(j[2]), j[3], j[4])
            if k == "count":
                return (k, j[1], j[2], tuple(j[3]))
            return (k,)
    return j


def _mx(m):
    return tuple(("opt", _mx(e[1])) if e[0] == "opt" else tuple(e) for e in m)


def run_formula(r, gname, g, cg, f, trees, entries, shadow=False):
    from isla.solver import ISLaSolver

    text = sem.to_isla(f)
    try:
        parsed = common.parse(text, g)
    except CaseTimeout:
        raise
    except Exception as e:  # noqa
        r.viol(f"parse/{common.exc_key(e)}", f"parse_isla rejects {text!r}: {type(e).__name__}: {str(e)[:100]}", _case(gname, trees[0][0], f, "parse"), "accepted", "rejected")
        r.evals += 1
        return
    solver = None
    if "check" in entries:
        try:
            solver = ISLaSolver(g, text)
        except CaseTimeout:
            raise
        except Exception as e:  # noqa
            r.viol(f"check/solver-construction/{common.exc_key(e)}", f"ISLaSolver(grammar, {text!r}) raised {type(e).__name__}: {str(e)[:100]}", _case(gname, trees[0][0], f, "check"), "solver", "exception")
            entries = [e for e in entries if e != "check"]
    for root, dt, ctx in trees:
        exp = sem.sat_ctx(ctx, f)
        for entry in entries:
            got = observe(entry, g, text, parsed, dt, solver)
            compare(r, gname, root, f, entry, exp, got, text, shadow)


def run_chunk(chunk):
    r = Result()
    gname = chunk["g"]
    tier = chunk["tier"]
    g = GR.cat(gname)
    cg = canon(g)
    trees = []
    for t in common.trees_of(gname, tier):
        root = with_ids(t)
        trees.append((root, to_dt(root), sem.Ctx(cg, root)))
        r.state(gname, t)
    if chunk["shadow"]:
        for f in shadow_formulas(cg):
            try:
                with time_cap(120):
                    run_formula(r, gname, g, cg, f, trees, ["eval"], shadow=True)
            except CaseTimeout:
                r.caps["formula_timeout_120s"] += 1
        return r
    F = _forms(gname, tier)[chunk["lo"]:chunk["hi"]]
    needles = [t for t in cg if t != "<start>"]
    for i, f in enumerate(F):
        gi = chunk["lo"] + i
        entries = ["eval"]
        if tier == "thorough" or gi % 2 == 0:
            entries.append("check")
        if gi % 7 == 0:
            entries.append("text")
        try:
            with time_cap(240):
                run_formula(r, gname, g, cg, f, trees, entries)
                if (gi % 3 == 0 or _has_root_arg(f)) and f[0] not in ("forall_int", "exists_int") and gname not in ("wide", "wide2"):
                    kind = "exists" if gi % 2 == 0 else "forall"
                    fw = wrap_numq(f, needles[gi % len(needles)], kind)
                    run_formula(r, gname, g, cg, fw, trees, ["eval"] + (["check"] if gi % 9 == 0 else []))
        except CaseTimeout:
            r.caps["formula_timeout_240s"] += 1
        if i == 0:
            r.sample({"grammar": gname, "formula": sem.to_isla(f), "trees": len(trees), "first_tree": tstr(trees[0][0])})
    return r


def replay(case):
    r = Result()
    gname = case["g"]
    g = GR.cat(gname)
    cg = canon(g)
    root = from_tjson(case["tree"])
    f = _from_fj(case["formula"])
    entry = case["entry"]
    trees = [(root, to_dt(root), sem.Ctx(cg, root))]
    shadow = f in shadow_formulas(cg)
    run_formula(r, gname, g, cg, f, trees, [entry] if entry != "parse" else ["eval"], shadow=shadow)
    return r.viols
