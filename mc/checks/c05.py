"""C05 — ground SMT-LIB atoms are judged exactly as Z3 judges them.

Atoms = operator skeleton x argument values.  Every atom is observed three ways:
  valid  isla.z3_helpers.is_valid(ground Z3 expression)
  eval   isla.evaluator.evaluate(concrete-syntax constraint, tree) - the string values are
         subtrees of the tree, the evaluator instantiates the variables
  subst  SMTFormula.substitute_expressions({var: closed tree})  (the solver's auto-evaluation)
Oracle: Z3 on the very same ground expression (mc.ref.smt.decide).
"""
import itertools

from ..ref import smt
from ..runner import Result, time_cap, CaseTimeout
from . import common

PROPERTY = "C05"
LEVEL = "model_checking"
RULE = (
    "operator skeletons (every SMT-LIB operator the ISLa grammar accepts: comparisons, arithmetic incl. div/mod/abs/unary minus/^, "
    "n-ary + * and or, =>, xor, ite, distinct, str.* functions, regex constructors one level deep incl. re.loop/re.^/re.comp/re.diff/"
    "re.inter/re.range with reversed and metacharacter bounds) x all value tuples over a string alphabet (empty, newline, quote, "
    "backslash, non-ASCII, regex metacharacters, numerals with leading zeros) and an integer alphabet (negatives, zero); three "
    "observation points; a schema is (skeleton, observation point); non-trivial iff Z3 gives both truth values over the value tuples"
)
ASSUMPTIONS = [
    "Z3 (z3-solver module ISLa imports) is the oracle; atoms Z3 itself cannot decide within 3 s are skipped and counted",
    "str.to.int arguments: unsigned numerals compared strictly, non-numerals excluded (property text), signed numerals only 'must not raise'",
]
TASKS_PER_CHILD = 4

S_QUICK = ["", "a", "b", "ab", "abab", "a\nb", "\n", 'a"b', "\\", "ä", "0", "7", "12", "007", "a.c", "[", "-", "*"]
S_MORE = ["ba", "aa", "]", "^", "+", "(", "a b", "\t", "€", "-3", "+3", "9007199254740993", "a-c", "{", "|", "$", "."]
I_ALL = [-7, -2, -1, 0, 1, 2, 3, 7]
I_SMALL = [-1, 0, 1, 2]

X, Y = ["v", "x"], ["v", "y"]
S = lambda s: ["s", s]
I = lambda n: ["i", n]


def skeletons(tier):
    """list of (sexpr, family)"""
    out = []
    add = lambda e, fam: out.append((e, fam))
    ints = I_SMALL if tier == "quick" else [-2, -1, 0, 1, 2, 3]
    # ---- string predicates
    for op in ("=", "str.<=", "str.prefixof", "str.suffixof", "str.contains", "distinct"):
        add([op, X, Y], "strpred")
    add(["str.is_digit", X], "strpred")
    add(["not", ["=", X, Y]], "strpred")
    add(["=", X, S("a")], "strpred")
    add(["=", ["str.++", X, Y], S("ab")], "strfun")
    add(["=", ["str.++", X, Y, X], S("aba")], "strfun")
    add(["=", ["str.replace", X, Y, S("c")], S("cb")], "strfun")
    add(["=", ["str.replace_all", X, Y, S("")], X], "strfun")
    add(["=", ["str.replace", X, S(""), Y], X], "strfun")
    # ---- string -> int
    for i in ints:
        add(["=", ["str.len", X], I(i)], "strint")
        add([">=", ["str.len", X], I(i)], "strint")
        add(["=", ["str.indexof", X, Y, I(i)], I(0)], "strint")
        add(["=", ["str.indexof", X, Y, I(0)], I(i)], "strint")
        add(["=", ["str.at", X, I(i)], Y], "strint")
        add(["=", ["str.substr", X, I(i), I(1)], Y], "strint")
        add(["=", ["str.substr", X, I(0), I(i)], Y], "strint")
        add(["=", ["str.substr", X, I(1), I(i)], Y], "strint")
        add(["=", ["str.from_int", I(i)], X], "strint")
        add(["=", ["str.to.int", X], I(i)], "toint")
        add([">", ["str.to.int", X], I(i)], "toint")
    for i in (-1, 0, 48, 97, 228, 10):
        add(["=", ["str.to_code", X], I(i)], "strint")
        add(["=", ["str.from_code", I(i)], X], "strint")
    add(["=", ["str.to.int", X], I(9007199254740993)], "toint")
    add(["=", ["str.to.int", X], I(9007199254740992)], "toint")
    add(["<", ["str.to.int", X], ["str.to.int", Y]], "toint")
    add(["=", ["str.to.int", X], ["str.to.int", Y]], "toint")
    add(["=", ["+", ["str.to.int", X], I(1)], ["str.to.int", Y]], "toint")
    add(["=", ["str.len", X], ["str.len", Y]], "strint")
    add(["=", ["+", ["str.len", X], ["str.len", Y]], I(2)], "arith-mixed")
    add(["=", ["+", ["str.len", X], ["str.len", Y], I(1)], I(3)], "arith-mixed")
    add(["=", ["*", ["str.len", X], ["str.len", Y], I(2)], I(4)], "arith-mixed")
    for i in ints:
        add(["=", ["div", ["str.len", X], I(i)], I(1)], "arith-mixed")
        add(["=", ["mod", ["str.len", X], I(i)], I(1)], "arith-mixed")
        add(["=", ["-", ["str.len", X]], I(i)], "arith-mixed")
        add(["=", ["-", ["str.len", X], I(i)], I(1)], "arith-mixed")
        add(["=", ["-", ["str.len", X], I(i), I(1)], I(0)], "arith-mixed")
        add(["=", ["abs", ["-", ["str.len", X], I(2)]], I(i)], "arith-mixed")
        add(["=", ["^", ["str.len", X], I(i)], I(4)], "arith-mixed")
        add(["=", ["^", I(2), ["str.len", X]], I(i)], "arith-mixed")
    # ---- Boolean structure
    A, B = ["=", X, S("a")], ["=", ["str.len", Y], I(1)]
    C = ["str.prefixof", X, Y]
    add(["and", A, B], "bool")
    add(["and", A, B, C], "bool")
    add(["or", A, B], "bool")
    add(["or", A, B, C], "bool")
    add(["=>", A, B], "bool")
    add(["xor", A, B], "bool")
    add(["not", ["and", A, ["not", B]]], "bool")
    add(["=", ["ite", A, X, Y], S("a")], "bool")
    add(["=", ["ite", A, I(1), ["str.len", Y]], I(1)], "bool")
    add(["=", A, B], "bool")
    add(["distinct", X, Y, S("a")], "bool")
    # ---- regular expressions
    bases = [
        ("to_re-y", ["str.to_re", Y]),
        ("to_re-ab", ["str.to_re", S("ab")]),
        ("to_re-a.c", ["str.to_re", S("a.c")]),
        ("to_re-nl", ["str.to_re", S("a\nb")]),
        ("range-ac", ["re.range", S("a"), S("c")]),
        ("range-ca", ["re.range", S("c"), S("a")]),
        ("range-09", ["re.range", S("0"), S("9")]),
        ("range-meta", ["re.range", S("*"), S("]")]),
        ("range-nonchar", ["re.range", S("ab"), S("c")]),
        ("allchar", ["re.allchar"]),
        ("all", ["re.all"]),
        ("none", ["re.none"]),
    ]
    ab = ["str.to_re", S("ab")]
    a_ = ["str.to_re", S("a")]
    for name, b in bases:
        add(["str.in_re", X, b], "re-base:" + name)
        wraps = [
            ("star", ["re.*", b]), ("plus", ["re.+", b]), ("opt", ["re.opt", b]), ("comp", ["re.comp", b]),
            ("loop12", [["_", "re.loop", "1", "2"], b]), ("loop0", [["_", "re.loop", "0", "0"], b]), ("loop21", [["_", "re.loop", "2", "1"], b]),
            ("pow2", [["_", "re.^", "2"], b]),
            ("concat-l", ["re.++", b, a_]), ("concat-r", ["re.++", a_, b]), ("concat3", ["re.++", a_, b, a_]),
            ("union", ["re.union", b, ab]), ("union3", ["re.union", a_, b, ab]),
            ("inter", ["re.inter", b, ["re.*", ["re.range", S("a"), S("b")]]]),
            ("diff", ["re.diff", ["re.*", ["re.allchar"]], b]),
        ]
        if tier == "quick" and name in ("to_re-nl", "range-nonchar", "range-09"):
            wraps = wraps[:4]
        for wn, w in wraps:
            add(["str.in_re", X, w], f"re-{wn}:{name}")
    add(["str.in_re", X, ["re.comp", ["re.union", ["str.to_re", S("a")], ["str.to_re", S("b")]]]], "re-comp:union")
    add(["str.in_re", X, ["re.*", ["re.union", ["str.to_re", S("ab")], ["re.range", S("0"), S("9")]]]], "re-nested")
    add(["str.in_re", X, ["re.++", ["re.opt", ["str.to_re", S("-")]], ["re.+", ["re.range", S("0"), S("9")]]]], "re-nested")
    add(["str.in_re", X, ["re.+", ["re.++", ["str.to_re", S("a")], ["re.opt", ["str.to_re", S("b")]]]]], "re-nested")
    add(["=", ["str.replace_re", X, ["re.+", ["str.to_re", S("a")]], S("c")], Y], "re-replace")
    add(["=", ["str.replace_re_all", X, ["str.to_re", S("a")], S("")], Y], "re-replace")
    return out


def int_skeletons(tier):
    out = []
    vals = I_ALL if tier == "thorough" else [-7, -1, 0, 2, 3]
    for a, b in itertools.product(vals, repeat=2):
        for op in ("div", "mod", "-", "+", "*"):
            for k in sorted({-1, 0, 1, _py(op, a, b)}):
                out.append((["=", [op, I(a), I(b)], I(k)], "arith:" + op))
        for op in ("<", "<=", ">", ">=", "=", "distinct"):
            out.append(([op, I(a), I(b)], "cmp:" + op))
        out.append((["=", ["^", I(a), I(b)], I(1)], "arith:^"))
    for a in vals:
        for k in (-a, a, abs(a)):
            out.append((["=", ["-", I(a)], I(k)], "arith:neg"))
            out.append((["=", ["abs", I(a)], I(k)], "arith:abs"))
    for a, b, c in itertools.product([-2, 0, 3], repeat=3):
        out.append((["=", ["+", I(a), I(b), I(c)], I(a + b + c)], "arith:+3"))
        out.append((["=", ["*", I(a), I(b), I(c)], I(a * b * c)], "arith:*3"))
        out.append((["=", ["-", I(a), I(b), I(c)], I(a - b - c)], "arith:-3"))
        out.append((["<", I(a), I(b), I(c)], "cmp:<3"))
        out.append((["=", I(a), I(b), I(c)], "cmp:=3"))
    seen = set()
    res = []
    for e, fam in out:
        k = repr(e)
        if k not in seen:
            seen.add(k)
            res.append((e, fam))
    return res


def _py(op, a, b):
    try:
        return {"div": lambda: a // b if b > 0 else -(a // -b), "mod": lambda: a % abs(b), "-": lambda: a - b, "+": lambda: a + b, "*": lambda: a * b}[op]()
    except ZeroDivisionError:
        return 0


GRAMMAR_CACHE = {}


def _grammar():
    return {"<start>": ["<p>"], "<p>": ["<x><y>"], "<x>": ["<w>"], "<y>": ["<w>"], "<w>": ["a", "b"]}


def _tree(vx, vy):
    from isla.derivation_tree import DerivationTree as DT

    mk = lambda lab, v: DT(lab, [DT(v, [])])
    return DT("<start>", [DT("<p>", [mk("<x>", vx), mk("<y>", vy)])])


def _text(e, names):
    body = smt.to_isla(e)
    for n in reversed(names):
        body = f"forall <{n}> {n} in start: ({body})"
    return body


def arg_class(e, env):
    vals = list(env.values())
    lits = []

    def rec(x):
        if isinstance(x, list):
            if x[0] == "s":
                lits.append(x[1])
            elif x[0] == "i":
                lits.append(x[1])
            elif x[0] != "v":
                for a in x[1:]:
                    rec(a)

    rec(e)
    cl = []
    strs = [v for v in vals + lits if isinstance(v, str)]
    if any("\n" in s for s in strs):
        cl.append("newline")
    if any(not s.isascii() for s in strs):
        cl.append("non-ascii")
    if any(('"' in s or "\\" in s) for s in strs):
        cl.append("quote-or-backslash")
    if any(s == "" for s in vals):
        cl.append("empty")
    if any(ch in s for s in strs for ch in ".[]^*+()-{}|$?\t "):
        cl.append("metachar")
    if any(isinstance(v, int) and v < 0 for v in lits):
        cl.append("negative-int")
    if any(isinstance(v, int) and v == 0 for v in lits):
        cl.append("zero")
    return "+".join(cl) or "plain"


def op_key(e):
    """operator nest, literals blanked: the 'operator kind' part of a finding key"""
    if isinstance(e, list):
        if e[0] in ("v", "s", "i"):
            return ""
        head = e[0] if isinstance(e[0], str) else "(" + " ".join(map(str, e[0])) + ")"
        inner = [op_key(a) for a in e[1:]]
        inner = [i for i in inner if i]
        return head + ("(" + ",".join(inner) + ")" if inner else "")
    return ""


def observe(kind, e, env, parsed, names):
    import z3
    from isla.z3_helpers import is_valid
    from isla.evaluator import evaluate
    from isla.language import SMTFormula

    try:
        if kind == "valid":
            return common.tv(is_valid(smt.ground_expr(e, env)))
        if kind == "eval":
            t = _tree(env.get("x", "a"), env.get("y", "a"))
            return common.tv(evaluate(parsed, t, _grammar()))
        if kind == "subst":
            f = parsed
            while not isinstance(f, SMTFormula):
                f = f.inner_formula
            t = _tree(env.get("x", "a"), env.get("y", "a"))
            sub = {"x": t.get_subtree((0, 0)), "y": t.get_subtree((0, 1))}
            m = {v: sub[v.name] for v in f.free_variables()}
            res = f.substitute_expressions(m)
            if isinstance(res, SMTFormula) and z3.is_true(res.formula):
                return True
            if isinstance(res, SMTFormula) and z3.is_false(res.formula):
                return False
            return "NOT-EVALUATED"
    except CaseTimeout:
        raise
    except BaseException as ex:  # noqa
        return "EXC:" + common.exc_key(ex)


def numeral(s):
    return s.isdigit() and s.isascii()


def to_int_status(e, env):
    """'ok' all str.to.int arguments are unsigned numerals; 'signed' some is a signed numeral (only
    'must not raise'); 'excluded' some is not a numeral at all"""
    st = "ok"
    for a in smt.to_int_args(e):
        v = env[a[1]] if a[0] == "v" else a[1] if a[0] == "s" else None
        if v is None:
            return "excluded"
        if numeral(v):
            continue
        if len(v) > 1 and v[0] in "+-" and numeral(v[1:]):
            st = "signed"
        else:
            return "excluded"
    return st


def check_atom(r, e, fam, env, parsed, names, kinds):
    tis = to_int_status(e, env)
    if tis == "excluded":
        r.outcomes["excluded-non-numeral"] += 1
        return
    exp = smt.decide(e, env)
    if isinstance(exp, tuple):  # Z3 rejects the expression itself (ill-sorted): outside the property
        r.outcomes["z3-rejects"] += 1
        return
    if exp == smt.UNKNOWN:
        r.caps["z3_unknown_on_ground_atom"] += 1
        return
    r.state(repr(e), tuple(sorted(env.items())))
    for kind in kinds:
        got = observe(kind, e, env, parsed, names)
        r.evals += 1
        r.transitions += 1
        if tis == "ok":
            r.verdict((repr(e), kind), exp)
        r.outcomes[f"{kind}:{exp}"] += 1
        bad = None
        if isinstance(got, str) and got.startswith("EXC"):
            bad = "raises:" + got[4:]
        elif tis == "signed":
            continue
        elif got == "UNKNOWN" and smt.needed_solver(e, env):
            # Z3 needed a solver call for this atom; ISLa gives it a 500 ms budget, so UNKNOWN is Z3's own (load-dependent) answer
            r.caps["isla_unknown_where_z3_needs_a_solver_call"] += 1
            continue
        elif got != exp:
            bad = f"expected-{exp}-got-{got}"
        if bad:
            key = f"{op_key(e)}/{arg_class(e, env)}/{bad}"
            r.viol(key, f"{smt.to_smtlib(e)} with {env!r}: Z3 says {exp}, isla {got} [{kind}]",
                   dict(e=e, env=env, kind=kind, fam=fam), exp, got)


def chunks(tier, seed):
    sk = skeletons(tier)
    out = []
    per = 6 if tier == "quick" else 3
    for i in range(0, len(sk), per):
        out.append(dict(kind="str", lo=i, hi=min(len(sk), i + per), tier=tier))
    isk = int_skeletons(tier)
    for i in range(0, len(isk), 200):
        out.append(dict(kind="int", lo=i, hi=min(len(isk), i + 200), tier=tier))
    return out


def _values(e, tier):
    names = smt.variables(e)
    base = S_QUICK if tier == "quick" else S_QUICK + S_MORE
    doms = []
    toint_vars = {a[1] for a in smt.to_int_args(e) if a[0] == "v"}
    for n in names:
        if n in toint_vars:
            doms.append([s for s in base if numeral(s) or (len(s) > 1 and s[0] in "+-" and numeral(s[1:]))] + ["3", "10", "9007199254740993"])
        else:
            doms.append(base)
    return names, list(itertools.product(*doms))


def run_chunk(chunk):
    r = Result()
    tier = chunk["tier"]
    sk = (skeletons(tier) if chunk["kind"] == "str" else int_skeletons(tier))[chunk["lo"]:chunk["hi"]]
    for e, fam in sk:
        names, tuples = _values(e, tier)
        text = _text(e, names)
        parsed = None
        try:
            parsed = common.parse(text, _grammar())
        except CaseTimeout:
            raise
        except BaseException as ex:  # noqa
            r.outcomes["isla-parser-rejects-skeleton"] += 1
            r.extra["parser_rejects:" + op_key(e)[:60]] += 1
        kinds = ["valid"] + (["eval", "subst"] if parsed is not None else [])
        if not names:
            kinds = [k for k in kinds if k != "subst"]
        try:
            with time_cap(900):
                for tup in tuples:
                    env = dict(zip(names, tup))
                    check_atom(r, e, fam, env, parsed, names, kinds)
        except CaseTimeout:
            r.caps["skeleton_timeout_900s"] += 1
        r.sample({"atom": smt.to_smtlib(e), "family": fam, "value_tuples": len(tuples), "observation_points": kinds}, limit=2)
    return r


def replay(case):
    r = Result()
    e, env = case["e"], case["env"]
    names = smt.variables(e)
    try:
        parsed = common.parse(_text(e, names), _grammar())
    except BaseException:  # noqa
        parsed = None
    if parsed is None and case["kind"] != "valid":
        return []
    check_atom(r, e, case.get("fam", ""), env, parsed, names, [case["kind"]])
    return r.viols
