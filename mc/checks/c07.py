"""C07 — unparsed constraints parse back to the same constraint.

For every constraint text phi of the alphabet that parse_isla accepts:
  p1 = parse(phi); u = unparse(p1); p2 = parse(u); u2 = unparse(p2)
parse(u) must succeed, p2 == p1, u2 == u, and p1/p2 must evaluate identically on every closed
tree of the grammar's universe.
"""
import itertools

from ..ref import sem, smt
from ..ref.reftree import canon, with_ids, to_dt, tstr
from ..runner import Result, time_cap, CaseTimeout
from ..universe import grammars as GR
from . import common, c05

PROPERTY = "C07"
LEVEL = "model_checking"
RULE = (
    "constraint texts: (1) one core-syntax formula per schema of the typed universe (assgn, list); (2) every sugared form of the C08 "
    "generator; (3) free nonterminals incl. <start> in every argument position, XPath expressions (child, index, descendant), const "
    "declarations, bound names colliding with generated names; (4) one constraint per SMT operator nest of the C05 alphabet and per string "
    "literal over {plain, empty, quote, backslash, trailing backslash, newline, tab, Latin-1, BMP}; (5) match expressions over a grammar whose "
    "terminals need escaping (quote, backslash, braces, brackets, newline, '<'); (6) numeric quantifiers and predicates with string/int "
    "arguments; (7) every pair of arithmetic operators in left-/right-nested, flat and infix form, unary minus, nested Boolean SMT operators, "
    "nested and indexed regular-expression operators; (8) every assignment of the names {v, v_0, v_1} to the quantifiers of four formula shapes "
    "in fully explicit syntax; a schema is (class, sub-class); non-trivial iff the class contains texts with different unparsed forms"
)
ASSUMPTIONS = [
    "texts rejected by the first parse_isla are outside the domain (counted per class; a class that is rejected completely is reported as a coverage gap in the evidence)",
    "evaluation equality is checked on the closed-tree universe of the grammar (assgn: 72 trees, list: 48, esc: all trees up to a bound)",
]
TASKS_PER_CHILD = 6

ESC = {
    "<start>": ["<p>"],
    "<p>": ['<k>"<v>"', "<k>}<v>", "<k>{<v>", "<k>]<v>", "<k>[<v>", "<k>\\<v>", "<k>\n<v>", "<k> < <v>"],
    "<k>": ["a", "b"],
    "<v>": ["1", "2"],
}

LITS = ["a", "", 'a"b', "\\", "a\\", "a\nb", "\t", "ä", "€", "x y", "a\\nb", "{", "}"]


def texts(tier):
    """(class, subclass, grammar name, text)"""
    from . import c08

    out = []
    for gname in ("assgn", "list"):
        F = common.formulas_of(gname, "small")
        seen = set()
        for f in F:
            k = sem.schema(f)
            if k in seen:
                continue
            seen.add(k)
            out.append(("core", f[0], gname, sem.to_isla(f)))
    for cls, sub, gname, sugar, _core in c08.pairs(tier):
        out.append(("sugar", cls, gname, sugar))
    A = "assgn"
    free = [
        '<var> = "x"', 'str.len(<start>) > 3', '(= <start> "x := 1")', "inside(<var>, <start>)", "before(<assgn>, <assgn>)",
        'count(<start>, "<var>", "2")', 'count(<stmt>, "<assgn>", "1")', 'nth("1", <assgn>, <start>)', 'level("GE", "<stmt>", <var>, <rhs>)',
        'exists <assgn>: <assgn> = "x := 1"', 'forall <assgn> in start: <assgn>.<var> = "x"', "exists <var>: (forall <rhs>: inside(<var>, <rhs>))",
        '<var> = "x" and <digit> = "1"', '<var> = "x" or not <digit> = "1"', 'not (<var> = "x")', 'forall <var>: <var> = <var>',
    ]
    for t in free:
        out.append(("free-nonterminal", "free", A, t))
    xpath = [
        '<assgn>.<var> = "x"', '<assgn>.<rhs>.<var> = "x"', '<assgn>.<rhs>.<digit> = "1"', '<stmt>..<var> = "x"', '<stmt>.<assgn>..<digit> = "0"',
        '<assgn>.<var>[1] = "x"', 'exists <assgn> a: a.<rhs>.<var> = a.<var>', "forall <assgn> a: before(a.<var>, a.<rhs>)",
        '<stmt>.<assgn>.<rhs>.<var> = "y"', 'forall <stmt> s: exists <assgn> a in s: a.<var> = "x"', '<assgn>.<rhs>..<digit> = "1"',
        'str.len(<assgn>.<var>) = 1', 'count(<stmt>.<assgn>, "<var>", "1")',
    ]
    for t in xpath:
        out.append(("xpath", "xpath", A, t))
    consts = [
        'const c: <start>; forall <var> v in c: v = "x"', 'const start: <start>; exists <var> v in start: v = "y"',
        'const prog: <start>; str.len(prog) > 3', 'const c: <start>; <var> = "x"',
    ]
    for t in consts:
        out.append(("const", "const", A, t))
    names = [
        'forall <var> var: <rhs>.<var> = var', 'forall <var> var_0: (<var> = var_0 or <rhs>.<var> = "x")', 'exists <rhs> rhs: rhs.<var> = <var>',
        'forall <assgn> assgn: exists <assgn> assgn_0: before(assgn_0, assgn)', 'exists <var> a_1: exists <var> a: a = a_1',
        'forall <var> var: forall <var> var_1: (<var> = var or var = var_1)',
    ]
    for t in names:
        out.append(("name-collision", "names", A, t))
    numq = [
        'exists int n: count(start, "<assgn>", n)', 'forall int n: (not count(start, "<var>", n) or str.to.int(n) < 5)',
        'exists int n: (str.to.int(n) >= 2 and count(<stmt>, "<assgn>", n))', 'exists int n: exists int m: (count(start, "<var>", n) and count(start, "<digit>", m) and str.to.int(n) = str.to.int(m))',
        'exists int n: forall <stmt> s: count(s, "<assgn>", n)', 'not (exists int n: (count(start, "<assgn>", n) and str.to.int(n) > 2))',
    ]
    for t in numq:
        out.append(("numeric-quantifier", "numq", A, t))
    # SMT operators: one per operator nest, over the list grammar's <num> (numerals) and <list>
    seen = set()
    for e, fam in c05.skeletons("quick"):
        k = c05.op_key(e)
        if k in seen:
            continue
        seen.add(k)
        names_ = smt.variables(e)
        body = smt.to_isla(e)
        m = {"x": "<num>", "y": "<list>"}
        txt = body
        for n in reversed(names_):
            txt = f"forall {m[n]} {n} in start: ({txt})"
        out.append(("smt-operator", fam.split(":")[0], "list", txt))
    for a in LITS:
        out.append(("string-literal", c05_class(a), A, f"forall <var> v in start: (= v {smt.isla_str(a)})"))
        out.append(("string-literal", c05_class(a), A, f'forall <var> v in start: (str.in_re v (re.++ (str.to_re {smt.isla_str(a)}) (re.* (str.to_re "x"))))'))
        out.append(("string-literal", c05_class(a), A, f"<var> = {smt.isla_str(a)}"))
    # match expressions with terminals that need escaping
    mex = [
        ('quote', 'forall <p> p="{<k> k}\\"{<v> v}\\"" in start: (= k "a")'),
        ('rbrace', 'forall <p> p="{<k> k}}}{<v> v}" in start: (= k "a")'),
        ('rbracket', 'forall <p> p="{<k> k}]{<v> v}" in start: (= v "1")'),
        ('backslash', 'forall <p> p="{<k> k}\\\\{<v> v}" in start: (= v "1")'),
        ('newline', 'forall <p> p="{<k> k}\n{<v> v}" in start: (= v "1")'),
        ('langle', 'forall <p> p="{<k> k} < {<v> v}" in start: (= v "1")'),
        ('backslash-then-escape-letter', 'forall <p> p="{<k> k}\\\\n{<v> v}" in start: (= v "1")'),
        ('backslash-then-quote', 'forall <p> p="{<k> k}\\\\\\"{<v> v}" in start: (= v "1")'),
        ('trailing-backslash', 'forall <p> p="{<k> k}{<v> v}\\\\" in start: (= v "1")'),
        ('hex-escape', 'forall <p> p="{<k> k}\\x5c\\x22{<v> v}" in start: (= v "1")'),
        ('tab-escape', 'forall <p> p="{<k> k}\\t{<v> v}" in start: (= v "1")'),
        ('optional', 'exists <p> p="<k>[ < <v>]" in start: (= p "a")'),
        ('xpath-esc', '<p>.<k> = "a"'),
        ('xpath-esc', 'exists <p>: <p>.<v> = "1"'),
        ('free-esc', 'forall <p>: inside(<k>, <p>)'),
    ]
    for sub, t in mex:
        out.append(("mexpr-escaping", sub, "esc", t))
    preds = [
        'forall <var> v: nth("2", v, start)', 'forall <var> a: forall <var> b: (level("EQ", "<stmt>", a, b) or different_position(a, b))',
        'exists <assgn> a: exists <assgn> b: consecutive(a, b)', 'forall <stmt> s: count(s, "<var>", "2")', 'exists <assgn> a: direct_child(a, start)',
    ]
    for t in preds:
        out.append(("predicate-arguments", "pred", A, t))
    # arithmetic nesting: every pair of operators in left-nested, right-nested and flat (n-ary) prefix form, and the infix forms
    ops = ["+", "-", "*", "div", "mod"]
    for o1, o2 in itertools.product(ops, ops):
        for shape, e in (("left", f"({o1} ({o2} 7 2) 3)"), ("right", f"({o1} 7 ({o2} 3 2))"), ("both", f"({o1} ({o2} 7 2) ({o2} 3 1))")):
            out.append(("arith-nesting", shape, "list", f"forall <num> x in start: (= (str.to.int x) {e})"))
        if o1 == o2:
            out.append(("arith-nesting", "flat", "list", f"forall <num> x in start: (= (str.to.int x) ({o1} 7 2 1))"))
            out.append(("arith-nesting", "flat", "list", f"forall <num> x in start: (= (str.to.int x) ({o1} 9 ({o1} 4 2 1) 1))"))
        if o1 in "+-*" and o2 in "+-*":
            out.append(("arith-nesting", "infix", "list", f"forall <num> x in start: str.to.int(x) = 7 {o1} 2 {o2} 1"))
            out.append(("arith-nesting", "infix", "list", f"forall <num> x in start: str.to.int(x) = 7 {o1} (2 {o2} 1)"))
    for e in ("(- 1)", "(- (- 2 1))", "(- (- 1))", "(- 3 (- 1))", "(- (+ 1 2))", "(+ (str.len x) (- (str.len x) (- 2 1)))", "(- (str.len x) (- (str.len x) 1) 1)"):
        out.append(("arith-nesting", "unary", "list", f"forall <num> x in start: (= (str.to.int x) {e})"))
    for o1, o2 in itertools.product(["and", "or", "=>", "xor"], repeat=2):
        a_, b_, c_ = '(= x "1")', '(= x "2")', '(= (str.len x) 1)'
        out.append(("bool-nesting", "right", "list", f"forall <num> x in start: ({o1} {a_} ({o2} {b_} {c_}))"))
        out.append(("bool-nesting", "left", "list", f"forall <num> x in start: ({o1} ({o2} {a_} {b_}) {c_})"))
    for e in ("((_ re.loop 2) (str.to_re \"1\"))", "((_ re.loop 1 2) (str.to_re \"1\"))", "((_ re.^ 2) (str.to_re \"1\"))", "(re.opt (str.to_re \"1\"))",
              "(re.++ (str.to_re \"1\") (re.++ (str.to_re \"2\") (str.to_re \"3\")))", "(re.union (re.union (str.to_re \"1\") (str.to_re \"2\")) (str.to_re \"3\"))",
              "(re.++ (re.++ (str.to_re \"1\") (str.to_re \"2\")) (str.to_re \"3\"))", "(re.diff (re.diff re.all (str.to_re \"2\")) (str.to_re \"3\"))",
              "(re.diff re.all (re.diff (str.to_re \"2\") (str.to_re \"3\")))", "(re.inter (re.+ (re.range \"0\" \"9\")) (re.comp (str.to_re \"3\")))"):
        out.append(("regex-nesting", "re", "list", f"forall <num> x in start: (str.in_re x {e})"))
    for e in ('(str.++ x (str.++ "a" x))', '(str.++ (str.++ x "a") x)', '(str.++ x "a" x)'):
        out.append(("arith-nesting", "str.++", "list", f"forall <num> x in start: (= (str.len {e}) 3)"))
    # bound names: every assignment of the names {v, v_0, v_1} to the quantifiers of three formula shapes (fully explicit syntax)
    nm = ["v", "v_0", "v_1"]
    _atoms = ['(= {} "x")', '(not (= {} "y"))', '(= (str.len {}) 1)', '(str.in_re {} (re.+ (str.to_re "x")))']  # one per position: equal conjuncts are merged by the parser
    _cnt = itertools.count()
    atom = lambda n: _atoms[next(_cnt) % 4].format(n)
    for n1, n2, n3, n4 in itertools.product(nm, repeat=4):
        out.append(("bound-names", "nested-pair-then-sibling", A,
                    f"(forall <assgn> s in start: ((exists <var> {n1} in s: {atom(n1)}) and (exists <var> {n2} in s: {atom(n2)}))) and (exists <var> {n3} in start: {atom(n3)})" ))
        if n4 == "v":
            out.append(("bound-names", "chain", A, f"forall <var> {n1} in start: (exists <var> {n2} in start: (forall <var> {n3} in start: ((= {n1} {n2}) or (= {n2} {n3}))))"))
            out.append(("bound-names", "siblings", A, f"((exists <var> {n1} in start: {atom(n1)}) and (exists <var> {n2} in start: {atom(n2)})) or (exists <var> {n3} in start: {atom(n3)})"))
    for n1, n2, n3, n4 in itertools.product(nm, repeat=4):
        out.append(("bound-names", "two-nested-pairs", A,
                    f"(forall <assgn> s in start: ((exists <var> {n1} in s: {atom(n1)}) and (exists <var> {n2} in s: {atom(n2)}))) and "
                    f"(forall <assgn> t in start: ((exists <var> {n3} in t: {atom(n3)}) or (exists <var> {n4} in t: {atom(n4)})))"))
    return out


def c05_class(s):
    return c05.arg_class(["s", s], {}) if False else ("quote" if '"' in s else "backslash" if "\\" in s else "control" if any(ord(c) < 32 for c in s) else "non-ascii" if any(ord(c) > 127 for c in s) else "brace" if s in "{}" else "plain")


def gram(name):
    from . import c08

    return ESC if name == "esc" else c08.GRAMS[name] if name in c08.GRAMS else GR.cat(name)


def _trees(name):
    from ..universe.trees import closed_trees

    if name == "esc":
        return closed_trees(canon(ESC), "<start>", 4)
    if name in ("pairs", "row12", "assgn2", "pairs2"):
        from . import c08

        return c08._trees(name, "quick")[:30]
    ts = common.trees_of(name, "quick")
    return ts[:: max(1, len(ts) // 30)]


def chunks(tier, seed):
    T = texts(tier)
    per = 6
    return [dict(lo=i, hi=min(len(T), i + per), tier=tier) for i in range(0, len(T), per)]


def check_text(r, cls, sub, gname, text, trees):
    from isla.language import unparse_isla
    from isla.evaluator import evaluate

    g = gram(gname)
    case = dict(cls=cls, sub=sub, g=gname, text=text)
    r.evals += 1
    r.state(gname, text)
    try:
        with time_cap(30):
            p1 = common.parse(text, g)
    except CaseTimeout:
        r.caps["parse_30s_cap"] += 1
        return
    except BaseException as e:  # noqa
        r.outcomes[f"rejected:{cls}"] += 1
        r.extra[f"rejected:{cls}:{type(e).__name__}"] += 1
        return
    r.outcomes[f"accepted:{cls}"] += 1
    r.transitions += 3
    try:
        u = unparse_isla(p1)
    except BaseException as e:  # noqa
        r.viol(f"unparse-raises/{common.exc_key(e)}/{cls}", f"unparse_isla of accepted constraint {text!r} raised {type(e).__name__}: {str(e)[:100]}", case)
        return
    r.verdict((cls, sub), u)
    try:
        p2 = common.parse(u, g)
    except BaseException as e:  # noqa
        r.viol(f"reparse-fails/{cls}/{sub}", f"{text!r} unparses to {u!r}, which parse_isla rejects: {type(e).__name__}: {str(e)[:100]}", case, "accepted", type(e).__name__)
        return
    try:
        u2 = unparse_isla(p2)
    except BaseException as e:  # noqa
        r.viol(f"unparse-raises/{common.exc_key(e)}/{cls}", f"second unparse of {text!r} raised {type(e).__name__}", case)
        return
    if not (p2 == p1):
        r.viol(f"reparsed-differs/{cls}/{sub}", f"{text!r}: re-parsing the unparsed text {u!r} gives a different constraint (second unparse {u2!r})", case, u, u2)
        return
    if u2 != u:
        r.viol(f"text-not-stable/{cls}/{sub}", f"{text!r}: unparse(parse(unparse(.))) differs: {u!r} vs {u2!r}", case, u, u2)
        return
    if cls == "smt-operator":
        trees = trees[:3]  # these atoms go through Z3's fallback (slow); equality of the two ASTs is already established
    for root, dt in trees:
        try:
            with time_cap(6):
                v1 = common.tv(evaluate(p1, dt, g))
                v2 = common.tv(evaluate(p2, dt, g))
        except CaseTimeout:
            r.caps["evaluation_6s_cap"] += 1
            break
        except BaseException as e:  # noqa
            r.outcomes["evaluation-raised"] += 1
            continue
        r.transitions += 2
        if v1 != v2:
            r.viol(f"evaluates-differently/{cls}/{sub}", f"{text!r} evaluates {v1} but its re-parsed form {u!r} evaluates {v2} on {tstr(root)!r}", case, v1, v2)
            return


def run_chunk(chunk):
    r = Result()
    T = texts(chunk["tier"])[chunk["lo"]:chunk["hi"]]
    cache = {}
    for cls, sub, gname, text in T:
        if gname not in cache:
            cache[gname] = [(with_ids(t), to_dt(with_ids(t))) for t in _trees(gname)]
        check_text(r, cls, sub, gname, text, cache[gname])
    if T:
        r.sample({"class": T[0][0], "grammar": T[0][2], "text": T[0][3]})
    return r


def replay(case):
    r = Result(keep_all=True)
    trees = [(with_ids(t), to_dt(with_ids(t))) for t in _trees(case["g"])]
    check_text(r, case["cls"], case["sub"], case["g"], case["text"], trees)
    return r.viols


def finalize(agg, tier):
    rej = {k.split(":", 1)[1]: v for k, v in agg.outcomes.items() if k.startswith("rejected:")}
    acc = {k.split(":", 1)[1]: v for k, v in agg.outcomes.items() if k.startswith("accepted:")}
    gaps = sorted(c for c in rej if c not in acc)
    return {"accepted_per_class": acc, "rejected_per_class": rej, "classes_rejected_completely": gaps}
