"""C21 — inputs generated for the bundled formalizations pass independent validity checks.

Formalization x cost settings x random seed x the first n solutions; every solution is judged
by a validator that shares no code with ISLa (own CSV splitter, xml.etree, docutils, own TAR
header decoder).  Level "exploration": a bounded set of configurations of a slow search.
"""
import os
import random
import re

from ..runner import Result, time_cap, CaseTimeout
from . import common

PROPERTY = "C21"
LEVEL = "exploration"
RULE = (
    "formalizations {CSV column count, XML well-formedness+namespaces+no attribute redefinition (prefix grammar), simple TAR, reST (four "
    "shipped constraints)} x cost/instantiation settings (the ones the repository's own tests use, plus default and two weight variations) x "
    "random seeds {0, 1, 2} (thorough {0..5}) x the first n solutions (n = 12..120 per run, wall-clock cap per run); every solution validated "
    "independently; a case is one (formalization, setting, seed) run; non-trivial iff it produced at least two different solutions"
)
ASSUMPTIONS = [
    "CSV: records end at a newline or carriage return outside quotes; ';' separates fields outside quotes; all records must have the same number of fields",
    "XML: xml.etree.ElementTree accepts the document (it rejects unbound namespace prefixes and duplicate attributes)",
    "TAR: name fields 100 bytes NUL-padded, checksum field = 6 octal digits + NUL + space equal to the header byte sum with the field blanked (the property lists checksums and field encodings only; link targets are not judged)",
    "reST: docutils reports no ERROR/SEVERE system message, and no WARNING about title under-/overlines, link target names or enumerated lists (the three formalized rules); other warnings (inline markup) are outside the property's list",
]
TASKS_PER_CHILD = 1
CONFIRM = False  # a run depends on Z3 timing; a failing solution is validated again from its own string in replay()


# ------------------------------------------------------------------ validators (no ISLa code)

def csv_valid(text):
    recs, rec, field, inq = [], [], [], False
    i = 0
    n = len(text)
    while i < n:
        ch = text[i]
        if inq:
            if ch == '"':
                if i + 1 < n and text[i + 1] == '"':
                    field.append('"')
                    i += 1
                else:
                    inq = False
            else:
                field.append(ch)
        elif ch == '"':
            inq = True
        elif ch == ";":
            rec.append("".join(field))
            field = []
        elif ch in "\n\r":
            rec.append("".join(field))
            field = []
            if rec != [""] or ch == "\n":
                recs.append(rec)
            rec = []
        else:
            field.append(ch)
        i += 1
    if inq:
        return "unterminated quoted field"
    if field or rec:
        rec.append("".join(field))
        recs.append(rec)
    recs = [r for r in recs if r != [""]] or recs
    counts = {len(r) for r in recs}
    if len(counts) > 1:
        return f"records have different numbers of fields: {[len(r) for r in recs]}"
    return None


def xml_valid(text):
    import xml.etree.ElementTree as ET

    try:
        ET.fromstring(text)
    except ET.ParseError as e:
        return f"not well-formed: {e}"
    return None


def tar_valid(text):
    data = text.encode("latin-1", errors="replace")
    pos = 0
    names = []
    links = []
    k = 0
    while pos < len(data):
        hdr = data[pos:pos + 209]
        if len(hdr) < 209:
            return f"entry {k}: truncated header ({len(hdr)} bytes)"
        name, chk, typ, link = hdr[:100], hdr[100:108], hdr[108:109], hdr[109:209]
        if not re.fullmatch(rb"[0-7]{6}\x00 ", chk):
            return f"entry {k}: checksum field {chk!r} is not six octal digits, NUL, space"
        want = sum(hdr[:100]) + 8 * 32 + sum(hdr[108:])
        if int(chk[:6], 8) != want:
            return f"entry {k}: checksum {chk[:6].decode()} but the header bytes sum up to {want} = {want:o} octal"
        for what, fld in (("file name", name), ("linked file name", link)):
            s = fld.rstrip(b"\x00")
            if b"\x00" in s:
                return f"entry {k}: {what} has a NUL inside"
        if not name.rstrip(b"\x00"):
            return f"entry {k}: empty file name"
        if typ not in (b"0", b"2"):
            return f"entry {k}: type flag {typ!r}"
        names.append(name.rstrip(b"\x00"))
        if typ == b"2":
            links.append((k, link.rstrip(b"\x00")))
        pos += 209
        if data[pos:pos + 7] != b"CONTENT":
            return f"entry {k}: content marker missing"
        pos += 7
        k += 1
    return None


def rest_valid(text):
    import docutils.core
    import docutils.nodes
    import io

    err = io.StringIO()
    try:
        doc = docutils.core.publish_doctree(text, settings_overrides={"report_level": 5, "halt_level": 5, "warning_stream": err})
    except Exception as e:  # noqa
        return f"docutils raised {type(e).__name__}: {str(e)[:100]}"
    for m in doc.traverse(docutils.nodes.system_message):
        txt = m.astext()
        # "rendering without errors": ERROR (3) and SEVERE (4); of the warnings (2) only those about the three formalized rules
        # (title underlines, link targets, list numbering) - e.g. inline-markup warnings are not part of the formalized property
        if m["level"] >= 3 or (m["level"] == 2 and re.search(r"underline|overline|target name|[Ee]numerated list", txt)):
            return f"docutils level-{m['level']} message: {txt[:120]}"
    return None


# ------------------------------------------------------------------ configurations

def configs(tier):
    """(formalization, setting name, seed, n solutions, run cap seconds)"""
    seeds = [0, 1, 2] if tier == "quick" else [0, 1, 2, 3, 4, 5]
    out = []
    for s in seeds:
        out.append(("csv", "repo-test", s, 40 if tier == "quick" else 80, 90))
        out.append(("csv", "default", s, 25 if tier == "quick" else 60, 90))
        out.append(("tar", "repo-test", s, 12 if tier == "quick" else 30, 120))
        out.append(("xml", "repo-test", s, 40 if tier == "quick" else 120, 150))
        out.append(("xml", "free-3", s, 25 if tier == "quick" else 60, 150))
        out.append(("rest", "repo-test", s, 30 if tier == "quick" else 60, 150))
        if tier == "thorough":
            out.append(("xml", "weights-ones", s, 30, 150))
            out.append(("rest", "weights-ones", s, 30, 150))
            out.append(("csv", "smt-3", s, 30, 90))
    return out


def make_solver(form, setting):
    import functools
    from grammar_graph import gg
    from isla.solver import ISLaSolver, GrammarBasedBlackboxCostComputer, CostSettings, CostWeightVector
    from isla.fuzzer import GrammarFuzzer
    from isla.isla_predicates import COUNT_PREDICATE

    def cost(grammar, vec, k=4, **kw):
        return GrammarBasedBlackboxCostComputer(CostSettings(CostWeightVector(*vec), k=k), gg.GrammarGraph.from_grammar(grammar), **kw)

    if form == "csv":
        from isla_formalizations import csv as F

        kw = dict(max_number_free_instantiations=1, max_number_smt_instantiations=2, enforce_unique_trees_in_queue=False, global_fuzzer=False,
                  fuzzer_factory=functools.partial(GrammarFuzzer, min_nonterminals=0, max_nonterminals=30)) if setting == "repo-test" else {}
        if setting == "smt-3":
            kw = dict(max_number_smt_instantiations=3)
        return ISLaSolver(F.CSV_GRAMMAR, F.CSV_COLNO_PROPERTY, semantic_predicates={COUNT_PREDICATE}, timeout_seconds=80, **kw), csv_valid
    if form == "tar":
        from isla_formalizations import simple_tar as F

        return ISLaSolver(F.SIMPLE_TAR_GRAMMAR, F.TAR_CONSTRAINTS, max_number_free_instantiations=1, max_number_smt_instantiations=1, enforce_unique_trees_in_queue=False, timeout_seconds=110), tar_valid
    if form == "xml":
        from isla_formalizations import xml_lang as F

        g = F.XML_GRAMMAR_WITH_NAMESPACE_PREFIXES
        c = F.XML_NAMESPACE_CONSTRAINT & F.XML_WELLFORMEDNESS_CONSTRAINT & F.XML_NO_ATTR_REDEF_CONSTRAINT
        vec = (9.5, 0, 6, 0, 13) if setting != "weights-ones" else (1, 1, 1, 1, 1)
        return ISLaSolver(g, c, max_number_free_instantiations=3 if setting == "free-3" else 1, enforce_unique_trees_in_queue=True, cost_computer=cost(g, vec), timeout_seconds=140), xml_valid
    from isla_formalizations import rest as F

    g = F.REST_GRAMMAR
    c = F.LENGTH_UNDERLINE & F.DEF_LINK_TARGETS & F.NO_LINK_TARGET_REDEF & F.LIST_NUMBERING_CONSECUTIVE
    vec = (7, 1.5, 2.5, 2, 18) if setting != "weights-ones" else (1, 1, 1, 1, 1)
    return ISLaSolver(g, c, max_number_free_instantiations=1, max_number_smt_instantiations=1, enforce_unique_trees_in_queue=True,
                      cost_computer=cost(g, vec, reset_coverage_after_n_round_with_no_coverage=500), timeout_seconds=140), rest_valid


VALIDATORS = {"csv": csv_valid, "tar": tar_valid, "xml": xml_valid, "rest": rest_valid}


def chunks(tier, seed):
    return [dict(form=f, setting=s, seed=sd, n=n, cap=cap, tier=tier) for f, s, sd, n, cap in configs(tier)]


def run_chunk(chunk):
    r = Result()
    form, setting, sd, n, cap = chunk["form"], chunk["setting"], chunk["seed"], chunk["n"], chunk["cap"]
    random.seed(sd)
    sols = []
    try:
        with time_cap(cap + 30):
            solver, valid = make_solver(form, setting)
            for _ in range(n):
                try:
                    t = solver.solve()
                except (StopIteration, TimeoutError):
                    r.caps["run_ended_by_solver_timeout_or_exhaustion"] += 1
                    break
                sols.append(str(t))
    except CaseTimeout:
        r.caps["run_wallclock_cap"] += 1
    except Exception as e:  # noqa
        r.outcomes[f"solve-raised:{type(e).__name__}"] += 1  # C02's business
    r.state(form, setting, sd)
    valid = VALIDATORS[form]
    for k, s in enumerate(sols):
        r.evals += 1
        r.transitions += 1
        why = valid(s)
        if why:
            r.viol(f"{form}/invalid-solution/{why.split(':')[0][:60]}", f"{form} [{setting}, seed {sd}] solution #{k + 1} {s[:120]!r} fails the independent check: {why}", dict(form=form, text=s), "valid", why)
    for s in set(sols):
        r.verdict((form, setting, sd), s)
    r.outcomes[f"{form}:solutions"] += len(sols)
    r.sample({"formalization": form, "setting": setting, "seed": sd, "solutions": len(sols), "first": sols[0][:80] if sols else None}, limit=1)
    return r


def replay(case):
    r = Result()
    why = VALIDATORS[case["form"]](case["text"])
    if why:
        r.viol(f"{case['form']}/invalid-solution/{why.split(':')[0][:60]}", f"{case['text'][:120]!r}: {why}", case, "valid", why)
    return r.viols
