"""Helpers shared by the checks: tree/formula universes per tier, ISLa entry-point wrappers."""
import functools

from ..ref import sem
from ..ref.reftree import canon, with_ids, to_dt, tstr
from ..universe import grammars as GR, formulas as FU
from ..universe.trees import closed_trees

LEVEL_NTS = {"block": ("<block>",)}

# (depth, max_nodes) per grammar and tier
TREE_BOUNDS = {
    "assgn": {"quick": (6, 20), "thorough": (7, 30)},
    "list": {"quick": (5, 14), "thorough": (6, 20)},
    "block": {"quick": (6, 18), "thorough": (7, 24)},
    "null": {"quick": (6, 20), "thorough": (7, 30)},
    "signed": {"quick": (5, 12), "thorough": (6, 16)},
    "tags": {"quick": (5, 30), "thorough": (6, 40)},
    "amb": {"quick": (5, 12), "thorough": (6, 16)},
}


@functools.lru_cache(maxsize=None)
def trees_of(name, tier):
    g = GR.cat(name)
    cg = canon(g)
    if name == "wide":
        row = lambda s: ("<start>", (("<row>", tuple(("<c>", ((ch, ()),)) for ch in s)),))
        return [row("x" * 31 + "y"), row("x" * 32), row("y" + "x" * 31), row("x" * 28 + "yxxx")]
    if name == "wide2":
        cell = lambda kv: ("<c>", (("<p>", (("<k>", ((kv[0], ()),)), ("=", ()), ("<v>", ((kv[1], ()),)))),))
        row = lambda cells: ("<start>", (("<row>", tuple(cell(c) for c in cells)),))
        return [row(["a0"] * 30), row(["a0"] * 29 + ["b1"]), row(["b1"] + ["a0"] * 29), row(["a0"] * 27 + ["b0", "a1", "a0"]), row(["b1"] * 27 + ["a1", "b0", "b1"])]
    d, n = TREE_BOUNDS[name][tier]
    ts = closed_trees(cg, "<start>", d, max_nodes=n)
    if name == "null":
        ts = ts + closed_trees(cg, "<start>", d - 1, max_nodes=n, eps_leaf="empty")
    return ts


@functools.lru_cache(maxsize=None)
def formulas_of(name, profile):
    g = GR.cat(name)
    cg = canon(g)
    return FU.universe(cg, profile, level_nts=LEVEL_NTS.get(name, ()))


def tv(v):
    """ThreeValuedTruth -> True/False/'UNKNOWN'"""
    return True if v.is_true() else False if v.is_false() else "UNKNOWN"


def parse(text, grammar):
    from isla.language import parse_isla
    from isla.isla_predicates import STANDARD_STRUCTURAL_PREDICATES as SP, STANDARD_SEMANTIC_PREDICATES as MP

    return parse_isla(text, grammar, structural_predicates=SP, semantic_predicates=MP)


def exc_key(e):
    """stable key for an exception escaping ISLa: type + innermost isla frame"""
    import traceback

    tb = traceback.extract_tb(e.__traceback__)
    site = next((f"{f.filename.rsplit('/', 1)[-1]}:{f.name}" for f in reversed(tb) if "/isla/" in f.filename or "/isla_formalizations/" in f.filename), "outside-isla")
    return f"{type(e).__name__}@{site}"
