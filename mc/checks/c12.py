"""C12 — fuzzer completions and mutations produce valid trees of the same kind.

(a) GrammarFuzzer / GrammarCoverageFuzzer .expand_tree(p) for every open tree p up to a bound,
    under ALL random answer sequences (complete exploration for few open leaves, deviation-bounded
    otherwise); a long-lived coverage fuzzer is driven through call sequences of length <= 3.
(b) Mutator.mutate(t) for every closed tree up to a bound: every mutator choice is a choice point.
"""
import itertools

from .. import explorer
from ..ref import reftree as RT
from ..ref.reftree import canon, is_nt, paths, tstr, tjson, from_tjson
from ..runner import Result, time_cap, CaseTimeout
from ..universe import grammars as GR
from ..universe.trees import closed_trees, open_prefixes, partial_trees
from . import common

PROPERTY = "C12"
LEVEL = "model_checking"
RULE = (
    "grammars assgn/null/list/tags/expr (left recursion in the middle of an alternative) x fuzzer class x (min,max)_nonterminals in "
    "{(0,2),(1,4)} x every open prefix (node ids both fresh and caller-supplied) of every closed tree up to a node bound (rooted in <start> and in every other nonterminal; both encodings of epsilon) x every random "
    "answer sequence (complete for inputs with one open leaf, else <= 3 (thorough 4) deviations from a fixed default answer schedule within a horizon of 16 (24) choice points); "
    "Mutator.mutate on every closed tree x (min,max)_mutations in {(1,1),(2,3)} x <= 2 deviations; a schema is (grammar, component, "
    "setting); non-trivial iff at least two different results were produced"
)
ASSUMPTIONS = [
    "completion must keep every already expanded node: same path, label, id and child count; open leaves keep their label (the fuzzer may give the expanded node a new id)",
    "all entropy of fuzzer/mutator comes from the random module (grep: fuzzer.py, mutator.py) and is owned by the explorer",
]
TASKS_PER_CHILD = 3
import os

SEED = 1 + int(os.environ.get("VERIF_SEED", "0") or 0)  # fixes only the default answer schedule, never which deviations are explored

EXPR = {
    "<start>": ["<expr>"],
    "<expr>": ["<expr> + <term>", "<term>"],
    "<term>": ["<term>[<size>]", "x", "y"],
    "<size>": ["1", "2"],
}
GRAMS = {"assgn": GR.ASSGN, "null": GR.NULL, "list": GR.LIST, "tags": GR.TAGS, "expr": EXPR}
BOUND = {"assgn": (6, 20), "null": (7, 16), "list": (5, 12), "tags": (5, 24), "expr": (6, 14)}
BOUND_T = {"assgn": (7, 26), "null": (7, 20), "list": (6, 16), "tags": (5, 30), "expr": (7, 18)}


def closed(name, tier):
    """closed trees rooted in <start> AND (smaller ones) in every other nonterminal; for the grammar with
    epsilon rules both encodings of an epsilon expansion (a '' child, as the fuzzer builds it, and an empty
    child list, as the parser builds it)"""
    d, n = (BOUND if tier == "quick" else BOUND_T)[name]
    cg = canon(GRAMS[name])
    out = closed_trees(cg, "<start>", d, max_nodes=n)
    for X in cg:
        if X != "<start>":
            out += closed_trees(cg, X, max(2, d - 2), max_nodes=max(6, n // 2))[:: 2 if tier == "quick" else 1]
    if name == "null":
        out += [t for t in closed_trees(cg, "<start>", d - 1, max_nodes=n, eps_leaf="empty") if t not in out]
    return out


def opens(name, tier):
    seen = {}
    for t in closed(name, tier):
        for p, _ in open_prefixes(t, max_open=2, include_root=False):
            seen.setdefault(p, 1)
    for X in canon(GRAMS[name]):
        seen.setdefault((X, None), 1)
    return list(seen)


def chunks(tier, seed):
    out = []
    for name in GRAMS:
        P = opens(name, tier)
        per = 8 if tier == "quick" else 6
        for i in range(0, len(P), per):
            out.append(dict(kind="fuzz", g=name, lo=i, hi=min(len(P), i + per), tier=tier))
        C = closed(name, tier)
        per = 6 if tier == "quick" else 4
        for i in range(0, len(C), per):
            out.append(dict(kind="mut", g=name, lo=i, hi=min(len(C), i + per), tier=tier))
        out.append(dict(kind="seq", g=name, tier=tier))
    return out


def _show(t):
    if t[1] is None:
        return t[0]
    if not t[1]:
        return "" if is_nt(t[0]) else t[0]
    return "".join(_show(c) for c in t[1])


def completion_ok(cg, pref, res):
    """res (reference tree with ids) completes pref: closed, valid, keeps every expanded node of pref"""
    if RT.is_open(res):
        return "result-still-open", "the completed tree still has open leaves"
    if not RT.valid(cg, res, allow_open=False):
        return "invalid-tree", "the completed tree is not a derivation tree of the grammar"
    for p, st in paths(pref):
        try:
            rt = RT.at(res, p)
        except (IndexError, TypeError):
            return "expanded-part-changed", f"path {p} of the input no longer exists"
        if rt[0] != st[0]:
            return "expanded-part-changed", f"label at {p} changed from {st[0]} to {rt[0]}"
        if st[1] is not None:
            if rt[2] != st[2]:
                return "expanded-part-changed", f"id of the already expanded node at {p} changed"
            if rt[1] is None or len(rt[1]) != len(st[1]):
                return "expanded-part-changed", f"children of the already expanded node at {p} changed"
    return None


def fuzz_case(r, name, g, cg, cls, mm, p, ids, tier):
    from isla import fuzzer as FZ
    from isla.derivation_tree import DerivationTree as DT

    Fz = getattr(FZ, cls)
    pref = RT.with_ids(p, itertools.count(0)) if ids == "fresh" else RT.with_ids(p, itertools.count(1_000_003))
    case = dict(kind="fuzz", g=name, cls=cls, mm=list(mm), tree=tjson(pref), ids=ids)
    sch = (name, cls, mm, ids)

    def body():
        # caller-supplied ids lie just AHEAD of the global counter: fresh nodes will collide with them if ids are used as keys
        DT.next_id = 1_000_000 if ids == "ahead" else 2_000_000
        f = Fz(g, min_nonterminals=mm[0], max_nonterminals=mm[1])
        try:
            with time_cap(3):
                return ("ok", RT.from_dt(f.expand_tree(RT.to_dt(pref, bump=(ids != "ahead")))))
        except CaseTimeout:
            return ("timeout", None)
        except explorer.ReplayDivergence:
            raise
        except Exception as e:  # noqa
            return ("exc", common.exc_key(e))

    def check(obs, ex):
        r.evals += 1
        r.transitions += len(ex.points)
        kind, val = obs
        script = [p[2] for p in ex.points]
        if kind == "timeout":
            r.caps["fuzz_3s_cap"] += 1  # termination is not part of the property (an adversarial answer sequence can expand forever)
            return
        if kind == "exc":
            r.viol(f"fuzz/{cls}/raises/{val}", f"{cls}{mm}.expand_tree({_show(pref)!r}) raised {val} under answers {script[:20]}", dict(case, script=script), "closed tree", val)
            return
        r.verdict(sch, tstr(val))
        bad = completion_ok(cg, pref, val)
        if bad:
            r.viol(f"fuzz/{cls}/{bad[0]}", f"{cls}{mm}.expand_tree({_show(pref)!r}) = {_show(val)!r} under answers {script[:20]}: {bad[1]}", dict(case, script=script), "completion", _show(val))

    nopen = sum(1 for _q, st in paths(pref) if st[1] is None)
    bound = None if nopen <= 1 else (3 if tier == "quick" else 4)
    st = explorer.explore(body, check, bound, horizon=16 if tier == "quick" else 24, max_execs=1500 if tier == "quick" else 20000, default_seed=SEED)
    if st["capped"]:
        r.caps["fuzz_exec_cap"] += 1
    return st


def mut_case(r, name, g, cg, mm, t, tier):
    from isla.mutator import Mutator
    from isla.derivation_tree import DerivationTree as DT
    from grammar_graph import gg

    tref = RT.with_ids(t, itertools.count(0))
    case = dict(kind="mut", g=name, mm=list(mm), tree=tjson(tref))
    sch = (name, "Mutator", mm)
    graph = gg.GrammarGraph.from_grammar(g)

    def body():
        DT.next_id = 2_000_000
        m = Mutator(g, min_mutations=mm[0], max_mutations=mm[1], graph=graph)
        try:
            with time_cap(3):
                return ("ok", RT.from_dt(m.mutate(RT.to_dt(tref))))
        except CaseTimeout:
            return ("timeout", None)
        except explorer.ReplayDivergence:
            raise
        except Exception as e:  # noqa
            return ("exc", common.exc_key(e))

    def check(obs, ex):
        r.evals += 1
        r.transitions += len(ex.points)
        kind, val = obs
        script = [p[2] for p in ex.points]
        if kind == "timeout":
            r.caps["mutate_3s_cap"] += 1  # retry-until-success loop: a mutator that never applies is a cap, not a verdict
            return
        if kind == "exc":
            r.viol(f"mutate/raises/{val}", f"Mutator{mm}.mutate({tstr(tref)!r}) raised {val} under answers {script[:20]}", dict(case, script=script), "closed tree", val)
            return
        r.verdict(sch, tstr(val))
        bad = None
        if RT.is_open(val):
            bad = ("result-open", "the mutated tree has open leaves")
        elif val[0] != tref[0]:
            bad = ("root-changed", f"root symbol changed to {val[0]}")
        elif not RT.valid(cg, val, allow_open=False):
            bad = ("invalid-tree", "the mutated tree is not a derivation tree of the grammar")
        if bad:
            r.viol(f"mutate/{bad[0]}", f"Mutator{mm}.mutate({tstr(tref)!r}) = {_show(val)!r} under answers {script[:20]}: {bad[1]}", dict(case, script=script), "closed valid tree", _show(val))

    st = explorer.explore(body, check, 2 if tier == "quick" else 3, horizon=14 if tier == "quick" else 20, max_execs=1200 if tier == "quick" else 12000, default_seed=SEED)
    if st["capped"]:
        r.caps["mutate_exec_cap"] += 1
    return st


def seq_case(r, name, g, cg, tier):
    """one long-lived coverage fuzzer (state carried across calls, as the solver uses it): all sequences of <= 3 inputs"""
    from isla.fuzzer import GrammarCoverageFuzzer
    from isla.derivation_tree import DerivationTree as DT

    P = opens(name, tier)
    step = max(1, len(P) // 5)
    inputs = P[::step][:5]
    for seq in itertools.product(range(len(inputs)), repeat=3):
        DT.next_id = 2_000_000
        f = GrammarCoverageFuzzer(g)
        for k in seq:
            pref = RT.with_ids(inputs[k], itertools.count(0))
            explorer_ex = explorer.Execution([], SEED)
            try:
                with explorer.patched(explorer_ex), time_cap(10):
                    val = RT.from_dt(f.expand_tree(RT.to_dt(pref)))
            except CaseTimeout:
                r.caps["seq_3s_cap"] += 1
                break
            except Exception as e:  # noqa
                r.viol(f"fuzz-seq/raises/{common.exc_key(e)}", f"long-lived GrammarCoverageFuzzer raised on call sequence {seq}", dict(kind="seq", g=name, seq=list(seq)), "closed tree", type(e).__name__)
                break
            r.evals += 1
            r.transitions += 1
            r.verdict((name, "coverage-fuzzer-sequence"), tstr(val))
            bad = completion_ok(cg, pref, val)
            if bad:
                r.viol(f"fuzz-seq/{bad[0]}", f"long-lived GrammarCoverageFuzzer: call sequence {seq}, input {_show(pref)!r} -> {_show(val)!r}: {bad[1]}", dict(kind="seq", g=name, seq=list(seq)), "completion", _show(val))
                break


def run_chunk(chunk):
    r = Result()
    name, tier = chunk["g"], chunk["tier"]
    g = GRAMS[name]
    cg = canon(g)
    if chunk["kind"] == "seq":
        seq_case(r, name, g, cg, tier)
        r.sample({"grammar": name, "kind": "call sequences of one long-lived GrammarCoverageFuzzer", "sequences": 125})
        return r
    if chunk["kind"] == "fuzz":
        P = opens(name, tier)[chunk["lo"]:chunk["hi"]]
        for p in P:
            r.state(name, "fuzz", p)
            for cls in ("GrammarFuzzer", "GrammarCoverageFuzzer"):
                for mm in ((0, 2), (1, 4)):
                    for ids in ("fresh", "ahead"):
                        st = fuzz_case(r, name, g, cg, cls, mm, p, ids, tier)
            r.sample({"grammar": name, "open_tree": _show(p), "executions_last_setting": st["executions"], "deviation_bound": st["deviation_bound"], "horizon": st["horizon"]}, limit=2)
        return r
    C = closed(name, tier)[chunk["lo"]:chunk["hi"]]
    for t in C:
        r.state(name, "mut", t)
        for mm in ((1, 1), (2, 3)):
            st = mut_case(r, name, g, cg, mm, t, tier)
        r.sample({"grammar": name, "closed_tree": tstr(t), "executions_last_setting": st["executions"], "deviation_bound": st["deviation_bound"]}, limit=2)
    return r


def replay(case):
    r = Result(keep_all=True)
    name = case["g"]
    g = GRAMS[name]
    cg = canon(g)
    if case["kind"] == "seq":
        seq_case(r, name, g, cg, "quick")
        return [v for v in r.viols if v["case"].get("seq") == case["seq"]]
    tree = RT.strip_ids(from_tjson(case["tree"]))
    try:
        return _replay_script(case, name, g, cg, tree)
    except explorer.ReplayDivergence:
        # the recorded answers do not fit the choice points of this tree's run (recorded on other code): nothing to report here
        return []


def _replay_script(case, name, g, cg, tree):
    # replay = the recorded script only (bound 0 from that prefix)
    script = case.get("script", [])
    r2 = Result(keep_all=True)
    if case["kind"] == "fuzz":
        orig = explorer.explore

        def only(body, check, bound, horizon=0, max_execs=None, on_exec=None, default_seed=None):
            obs, ex = explorer.run(body, script, SEED)
            check(obs, ex)
            return dict(executions=1, capped=False, deviation_bound=0, horizon=0)

        explorer.explore = only
        try:
            fuzz_case(r2, name, g, cg, case["cls"], tuple(case["mm"]), tree, case["ids"], "quick")
        finally:
            explorer.explore = orig
    else:
        orig = explorer.explore

        def only(body, check, bound, horizon=0, max_execs=None, on_exec=None, default_seed=None):
            obs, ex = explorer.run(body, script, SEED)
            check(obs, ex)
            return dict(executions=1, capped=False, deviation_bound=0, horizon=0)

        explorer.explore = only
        try:
            mut_case(r2, name, g, cg, tuple(case["mm"]), tree, "quick")
        finally:
            explorer.explore = orig
    return r2.viols
