"""C08 — simplified syntax means exactly its documented core translation.

A generator emits PAIRS (sugared text, core formula): the core side is written down from the
rules in islaspec.rst ("Simplified Syntax") as an own AST - never by asking ISLa's translator.
On every closed tree of the grammar's universe evaluate(sugar) must equal the reference
semantics of the core form.
"""
import itertools

from ..ref import sem
from ..ref.reftree import canon, with_ids, to_dt, tstr, tjson, from_tjson
from ..runner import Result, time_cap, CaseTimeout
from ..universe import grammars as GR
from ..universe.trees import closed_trees
from . import common

PROPERTY = "C08"
LEVEL = "model_checking"
RULE = (
    "pairs (sugar, hand-expanded core) for every documented rule and combinations of up to three of them: omitted 'in start', omitted "
    "variable names, free nonterminals (one and two, also next to explicit quantifiers), XPath child axis with and without index over "
    "alternatives with one / several candidate expansions (conjunction in universal, disjunction in existential context), indices 1..12 on "
    "a 12-child rule, descendant axis (directly under the binding quantifier, also with an explicit existential in between), prefix and "
    "infix SMT notation, negative literals, implies / iff / xor; unnamed quantifier with an XPath next to a free XPath of the same type (2 x 2 x 2 "
    "x 2 x both orders); grammars assgn, list, pairs, row12 and the revisions assgn2, pairs2 (same nonterminal names, one more alternative); parse "
    "histories: all texts parsed under one grammar, then the pairs of another judged in the same process (6 ordered grammar pairs); all closed trees up to a bound; a "
    "schema is (rule class, sub-class); non-trivial iff the core form is true on some tree and false on another"
)
ASSUMPTIONS = [
    "the core side follows islaspec.rst: fresh names, one quantifier per alternative that contains enough occurrences, the descendant-axis quantifier is introduced directly inside the quantifier that binds the XPath's variable",
    "reference semantics mc/ref/sem.py judges the core form",
]
TASKS_PER_CHILD = 6

ROW12 = {"<start>": ["<row>"], "<row>": ["<d>" * 12, "<d>"], "<d>": ["0", "7"]}
PAIRS = {"<start>": ["<item>"], "<item>": ["<num>", "<pair>"], "<pair>": ["(<item>,<item>)"], "<num>": ["1", "2"]}
# revisions of two grammars: same nonterminal names, different alternatives (for the parse-history runs)
ASSGN2 = dict(GR.ASSGN, **{"<assgn>": ["<var> := <rhs>", "<var> += <rhs>"]})
PAIRS2 = dict(PAIRS, **{"<pair>": ["(<item>,<item>)", "!<item>"]})
GRAMS = {"assgn": GR.ASSGN, "list": GR.LIST, "pairs": PAIRS, "row12": ROW12, "assgn2": ASSGN2, "pairs2": PAIRS2}


def q(k, T, v, m, inv, body):
    return (k, T, v, m, inv, body)


def eq(v, s):
    return ("smt", ["=", ["v", v], ["s", s]])


def eqv(a, b):
    return ("smt", ["=", ["v", a], ["v", b]])


def mx(*els):
    """match expression helper: strings starting with '<' are nonterminals, tuples (T, name) are bindings"""
    out = []
    for e in els:
        if isinstance(e, tuple):
            out.append(("b", e[0], e[1]))
        elif e.startswith("<") and e.endswith(">") and " " not in e and len(e) > 2:
            out.append(("nt", e))
        else:
            out.append(("t", e))
    return tuple(out)


def pairs(tier):
    P = []
    add = lambda cls, sub, g, sugar, core: P.append((cls, sub, g, sugar, core))
    A = "assgn"
    var_x = lambda v: eq(v, "x")
    # 1. omitted "in start"
    add("in-start", "forall", A, 'forall <var> v: (= v "x")', q("forall", "<var>", "v", None, "start", var_x("v")))
    add("in-start", "exists-mexpr", A, 'exists <assgn> a="{<var> l} := <rhs>": (= l "y")', q("exists", "<assgn>", "a", mx(("<var>", "l"), " := ", "<rhs>"), "start", eq("l", "y")))
    add("in-start", "nested", A, 'forall <assgn> a: exists <var> v in a: (= v "x")', q("forall", "<assgn>", "a", None, "start", q("exists", "<var>", "v", None, "a", var_x("v"))))
    # 2. omitted variable names
    add("no-name", "exists", A, 'exists <assgn>: <assgn> = "x := y"', q("exists", "<assgn>", "assgn", None, "start", eq("assgn", "x := y")))
    add("no-name", "forall-in", A, 'forall <var> in start: <var> = "x"', q("forall", "<var>", "var", None, "start", var_x("var")))
    add("no-name", "nested", A, 'forall <assgn>: exists <var> in <assgn>: <var> = "x"', q("forall", "<assgn>", "a", None, "start", q("exists", "<var>", "v", None, "a", var_x("v"))))
    add("no-name", "pred", A, "forall <assgn>: exists <var>: inside(<var>, <assgn>)", q("forall", "<assgn>", "a", None, "start", q("exists", "<var>", "v", None, "start", ("pred", "inside", (), "v", "a"))))
    # 3. free nonterminals
    add("free", "one", A, '<var> = "x"', q("forall", "<var>", "v", None, "start", var_x("v")))
    add("free", "negated", A, 'not <var> = "x"', q("forall", "<var>", "v", None, "start", ("not", var_x("v"))))
    add("free", "two", A, '<var> = "x" or <digit> = "1"', q("forall", "<var>", "v", None, "start", q("forall", "<digit>", "d", None, "start", ("or", var_x("v"), eq("d", "1")))))
    add("free", "same-twice", A, '<var> = "x" or str.len(<var>) = 2', q("forall", "<var>", "v", None, "start", ("or", var_x("v"), ("smt", ["=", ["str.len", ["v", "v"]], ["i", 2]]))))
    add("free", "under-exists", A, "exists <assgn> a: before(a, <var>)", q("forall", "<var>", "v", None, "start", q("exists", "<assgn>", "a", None, "start", ("pred", "before", (), "a", "v"))))
    add("free", "def-use", A, 'exists <assgn> decl: (before(decl, <assgn>) and <assgn>.<rhs>.<var> = decl.<var>)',
        q("forall", "<assgn>", "a", mx("<var>", " := ", ("<var>", "rv")), "start",
          q("exists", "<assgn>", "decl", mx(("<var>", "dv"), " := ", "<rhs>"), "start", ("and", ("pred", "before", (), "decl", "a"), eqv("rv", "dv")))))
    add("free", "start", A, 'str.len(<start>) > 6', ("smt", [">", ["str.len", ["v", "start"]], ["i", 6]]))
    add("free", "count", A, 'count(<stmt>, "<assgn>", "1")', q("forall", "<stmt>", "s", None, "start", ("count", "s", "<assgn>", ("s", "1"))))
    # 4. XPath child axis
    add("xpath-child", "single-alternative", A, '<assgn>.<var> = "x"', q("forall", "<assgn>", "a", mx(("<var>", "v"), " := ", "<rhs>"), "start", var_x("v")))
    add("xpath-child", "one-of-two-alternatives", A, '<rhs>.<var> = "x"', q("forall", "<rhs>", "r", mx(("<var>", "v")), "start", var_x("v")))
    add("xpath-child", "two-steps", A, '<assgn>.<rhs>.<var> = "x"', q("forall", "<assgn>", "a", mx("<var>", " := ", ("<var>", "v")), "start", var_x("v")))
    add("xpath-child", "both-alternatives-universal", A, '<stmt>.<assgn> = "x := 1"',
        ("and", q("forall", "<stmt>", "s", mx(("<assgn>", "a"), " ; ", "<stmt>"), "start", eq("a", "x := 1")), q("forall", "<stmt>", "s2", mx(("<assgn>", "a2")), "start", eq("a2", "x := 1"))))
    add("xpath-child", "both-alternatives-existential", A, 'exists <stmt> s: s.<assgn> = "x := 1"',
        ("or", q("exists", "<stmt>", "s", mx(("<assgn>", "a"), " ; ", "<stmt>"), "start", eq("a", "x := 1")), q("exists", "<stmt>", "s2", mx(("<assgn>", "a2")), "start", eq("a2", "x := 1"))))
    add("xpath-child", "bound-var", A, 'forall <assgn> a: a.<var> = "x"', q("forall", "<assgn>", "a", mx(("<var>", "v"), " := ", "<rhs>"), "start", var_x("v")))
    add("xpath-child", "two-xpaths-one-var", A, 'exists <assgn> a: a.<rhs>.<var> = a.<var>', q("exists", "<assgn>", "a", mx(("<var>", "l"), " := ", ("<var>", "r")), "start", eqv("l", "r")))
    add("xpath-child", "predicate-args", A, "forall <assgn> a: before(a.<var>, a.<rhs>)", q("forall", "<assgn>", "a", mx(("<var>", "l"), " := ", ("<rhs>", "r")), "start", ("pred", "before", (), "l", "r")))
    add("xpath-child", "in-exists-existing-mexpr", A, 'exists <assgn> a="{<var> l} := <rhs>": a.<rhs>.<digit> = "1"', q("exists", "<assgn>", "a", mx(("<var>", "l"), " := ", ("<digit>", "d")), "start", eq("d", "1")))
    # index
    for i in (1, 2):
        m = mx("(", ("<item>", "it") if i == 1 else "<item>", ",", ("<item>", "it") if i == 2 else "<item>", ")")
        add("xpath-index", f"index-{i}-of-2", "pairs", f'<pair>.<item>[{i}] = "1"', q("forall", "<pair>", "p", m, "start", eq("it", "1")))
        add("xpath-index", f"index-{i}-of-2-exists", "pairs", f'exists <pair> p: p.<item>[{i}] = "2"', q("exists", "<pair>", "p", m, "start", eq("it", "2")))
    for i in (1, 2, 9, 10, 11, 12):
        m = tuple(("b", "<d>", "dd") if j == i - 1 else ("nt", "<d>") for j in range(12))
        add("xpath-index", "index-on-12-child-rule" + ("-two-digits" if i >= 10 else ""), "row12", f'<row>.<d>[{i}] = "7"', q("forall", "<row>", "r", m, "start", eq("dd", "7")))
    add("xpath-index", "index-1-default", "row12", '<row>.<d> = "7"',
        ("and", q("forall", "<row>", "r", tuple(("b", "<d>", "dd") if j == 0 else ("nt", "<d>") for j in range(12)), "start", eq("dd", "7")), q("forall", "<row>", "r2", mx(("<d>", "d2")), "start", eq("d2", "7"))))
    # 5. descendant axis
    add("xpath-descendant", "free", A, '<stmt>..<var> = "x"', q("forall", "<stmt>", "s", None, "start", q("forall", "<var>", "v", None, "s", var_x("v"))))
    add("xpath-descendant", "after-child", A, '<assgn>.<rhs>..<digit> = "1"', q("forall", "<assgn>", "a", mx("<var>", " := ", ("<rhs>", "r")), "start", q("forall", "<digit>", "d", None, "r", eq("d", "1"))))
    add("xpath-descendant", "bound-universal", A, 'forall <assgn> a: a..<var> = "x"', q("forall", "<assgn>", "a", None, "start", q("forall", "<var>", "v", None, "a", var_x("v"))))
    add("xpath-descendant", "exists-in-between", A, 'forall <assgn> a: exists <var> c: (= c a..<var>)',
        q("forall", "<assgn>", "a", None, "start", q("forall", "<var>", "v", None, "a", q("exists", "<var>", "c", None, "start", eqv("c", "v")))))
    add("xpath-descendant", "list", "list", '<list>..<d> = "0"', q("forall", "<list>", "l", None, "start", q("forall", "<d>", "d", None, "l", eq("d", "0"))))
    # 6. prefix / infix SMT
    L = "list"
    n_ge = lambda v, k: ("smt", [">=", ["str.to.int", ["v", v]], ["i", k]])
    add("smt-notation", "infix", L, "forall <num> n: str.to.int(n) >= 1", q("forall", "<num>", "n", None, "start", n_ge("n", 1)))
    add("smt-notation", "prefix-fn", L, 'forall <num> n: str.len(n) = 1', q("forall", "<num>", "n", None, "start", ("smt", ["=", ["str.len", ["v", "n"]], ["i", 1]])))
    add("smt-notation", "arith", L, "forall <num> n: 17 + str.to.int(n) = str.to.int(n) + 17", q("forall", "<num>", "n", None, "start", ("smt", ["=", ["+", ["i", 17], ["str.to.int", ["v", "n"]]], ["+", ["str.to.int", ["v", "n"]], ["i", 17]]])))
    add("smt-notation", "precedence", L, "forall <num> n: 1 + 2 * str.to.int(n) >= 5", q("forall", "<num>", "n", None, "start", ("smt", [">=", ["+", ["i", 1], ["*", ["i", 2], ["str.to.int", ["v", "n"]]]], ["i", 5]])))
    add("smt-notation", "sexpr-mixed", L, 'forall <num> n: ((= (str.len n) 2) or str.to.int(n) = 0)', q("forall", "<num>", "n", None, "start", ("or", ("smt", ["=", ["str.len", ["v", "n"]], ["i", 2]]), ("smt", ["=", ["str.to.int", ["v", "n"]], ["i", 0]]))))
    add("smt-notation", "regex-infix", L, 'forall <num> n: str.in_re(n, str.to_re("1") re.++ re.*(str.to_re("0")))', q("forall", "<num>", "n", None, "start", ("smt", ["str.in_re", ["v", "n"], ["re.++", ["str.to_re", ["s", "1"]], ["re.*", ["str.to_re", ["s", "0"]]]]])))
    # 7. negative literals
    add("negative-literal", "compare", L, "forall <num> n: str.to.int(n) > -1", q("forall", "<num>", "n", None, "start", ("smt", [">", ["str.to.int", ["v", "n"]], ["i", -1]])))
    add("negative-literal", "arith", L, "forall <num> n: str.to.int(n) + -2 >= 0", q("forall", "<num>", "n", None, "start", ("smt", [">=", ["+", ["str.to.int", ["v", "n"]], ["i", -2]], ["i", 0]])))
    add("negative-literal", "sexpr", L, "forall <num> n: (>= (- (str.to.int n) 1) -1)", q("forall", "<num>", "n", None, "start", ("smt", [">=", ["-", ["str.to.int", ["v", "n"]], ["i", 1]], ["i", -1]])))
    # 8. derived connectives
    Aa = q("exists", "<var>", "v", None, "start", var_x("v"))
    Bb = q("exists", "<digit>", "d", None, "start", eq("d", "1"))
    Cc = q("forall", "<var>", "w", None, "start", eq("w", "y"))
    sa, sb, sc = 'exists <var> v: v = "x"', 'exists <digit> d: d = "1"', 'forall <var> w: w = "y"'
    add("connective", "implies", A, f"({sa}) implies ({sb})", ("or", ("not", Aa), Bb))
    add("connective", "iff", A, f"({sa}) iff ({sb})", ("or", ("and", Aa, Bb), ("and", ("not", Aa), ("not", Bb))))
    add("connective", "xor", A, f"({sa}) xor ({sb})", ("or", ("and", Aa, ("not", Bb)), ("and", Bb, ("not", Aa))))
    add("connective", "precedence-and-or", A, f"{sa} and {sb} or {sc}", ("or", ("and", Aa, Bb), Cc))
    add("connective", "precedence-implies-iff", A, f"({sa}) implies ({sb}) iff ({sc})", ("or", ("and", ("or", ("not", Aa), Bb), Cc), ("and", ("not", ("or", ("not", Aa), Bb)), ("not", Cc))))
    add("connective", "precedence-not", A, f"not {sa} and {sb}", ("and", ("not", Aa), Bb))
    add("connective", "xor-free", A, '(<var> = "x") xor (<var> = "y")', q("forall", "<var>", "v", None, "start", ("or", ("and", var_x("v"), ("not", eq("v", "y"))), ("and", eq("v", "y"), ("not", var_x("v"))))))
    # combinations (three rules at once)
    # two XPaths on the same free nonterminal: whether ISLa merges them into one match expression or keeps two quantifiers
    # is not documented; the atoms are chosen so that both readings agree (a <var> always has length 1)
    add("combination", "free+xpath+infix", A, 'str.len(<assgn>.<var>) = 1 and <assgn>.<rhs>.<digit> = "0"',
        ("and", q("forall", "<assgn>", "a", mx(("<var>", "v"), " := ", "<rhs>"), "start", ("smt", ["=", ["str.len", ["v", "v"]], ["i", 1]])),
         q("forall", "<assgn>", "a2", mx("<var>", " := ", ("<digit>", "d")), "start", eq("d", "0"))))
    # (the descendant axis below an EXISTENTIALLY bound variable is not documented - "we eliminate the segments ... by
    #  introducing universal quantifiers" vs. "disjunction for existential formulas" - so only universal contexts are paired)
    add("combination", "noname+descendant+implies", A, '(forall <assgn>: <assgn>..<digit> = "1") implies (<var> = "x")',
        q("forall", "<var>", "v", None, "start", ("or", ("not", q("forall", "<assgn>", "a", None, "start", q("forall", "<digit>", "d", None, "a", eq("d", "1")))), var_x("v"))))
    # an unnamed quantifier over <assgn> with an XPath in its body NEXT TO a free <assgn> XPath outside it (the free one is closed at the top)
    inner = {"rhs-var": ('<assgn>.<rhs>.<var> = "x"', mx("<var>", " := ", ("<var>", "iv")), eq("iv", "x")), "var": ('<assgn>.<var> = "x"', mx(("<var>", "iv"), " := ", "<rhs>"), eq("iv", "x"))}
    outer = {"var": ('<assgn>.<var> = "y"', mx(("<var>", "ov"), " := ", "<rhs>"), eq("ov", "y")), "rhs-digit": ('<assgn>.<rhs>.<digit> = "1"', mx("<var>", " := ", ("<digit>", "od")), eq("od", "1"))}
    for kind, (ik, (isug, im, iat)), (ok, (osug, om, oat)), conn in itertools.product(("exists", "forall"), inner.items(), outer.items(), ("and", "or")):
        # the documentation closes "the formula" over the free nonterminal; whether the universal quantifier is put around the whole
        # formula or around the sub-formula that mentions the nonterminal is not spelled out, and the two differ when no <assgn> has the
        # shape of the match expression: both readings are computed and trees on which they differ are not judged
        inner_q = q(kind, "<assgn>", "i", im, "start", iat)
        add("combination", f"noname-{kind}-xpath-{conn}-free-xpath-same-type", A, f"({kind} <assgn>: {isug}) {conn} {osug}",
            ("readings", q("forall", "<assgn>", "o", om, "start", (conn, inner_q, oat)), (conn, inner_q, q("forall", "<assgn>", "o", om, "start", oat))))
        add("combination", f"free-xpath-{conn}-noname-{kind}-xpath-same-type", A, f"{osug} {conn} ({kind} <assgn>: {isug})",
            ("readings", q("forall", "<assgn>", "o", om, "start", (conn, oat, inner_q)), (conn, q("forall", "<assgn>", "o", om, "start", oat), inner_q)))
    # explicit names that look like the names ISLa generates for free nonterminals
    len1 = lambda v: ("smt", ["=", ["str.len", ["v", v]], ["i", 1]])
    add("name-collision", "named-like-free", A, 'forall <var> var: (= var <var>)', q("forall", "<var>", "f", None, "start", q("forall", "<var>", "var", None, "start", eqv("var", "f"))))
    for nm in ("var", "var_0"):
        both = ("and", q("forall", "<var>", "p", None, "start", len1("p")), q("forall", "<var>", "r", None, "start", eqv("r", "f")))
        add("name-collision", f"same-name-twice-then-free/{nm}", A, f'(forall <var> {nm}: str.len({nm}) = 1) and (forall <var> {nm}: (= {nm} <var>))',
            ("readings", q("forall", "<var>", "f", None, "start", both), ("and", both[1], q("forall", "<var>", "f", None, "start", both[2]))))
        add("name-collision", f"free-then-named/{nm}", A, f'(<var> = "x" or <var> = "y") and (exists <var> {nm}: {nm} = "y")',
            q("forall", "<var>", "f", None, "start", ("and", ("or", eq("f", "x"), eq("f", "y")), q("exists", "<var>", "n", None, "start", eq("n", "y")))))
    # const declaration: the declared constant takes the place of `start`
    add("const-declaration", "explicit-in", A, 'const c: <start>; forall <var> v in c: (= v "x")', q("forall", "<var>", "v", None, "start", var_x("v")))
    add("const-declaration", "atom-over-constant", A, 'const prog: <start>; str.len(prog) > 6', ("smt", [">", ["str.len", ["v", "start"]], ["i", 6]]))
    add("const-declaration", "free-nonterminal", A, 'const c: <start>; <var> = "x"', q("forall", "<var>", "v", None, "start", var_x("v")))
    add("const-declaration", "xpath", A, 'const c: <start>; exists <assgn> a in c: a.<var> = "y"', q("exists", "<assgn>", "a", mx(("<var>", "v"), " := ", "<rhs>"), "start", eq("v", "y")))
    add("const-declaration", "omitted-in", A, 'const c: <start>; exists <digit> d: d = "1"', q("exists", "<digit>", "d", None, "start", eq("d", "1")))
    # the revised grammars: every alternative of the revised rule takes part in the translation
    A2 = "assgn2"
    m2 = lambda lhs, rhs: (mx(lhs, " := ", rhs), mx(lhs, " += ", rhs))
    for nm, sugar, lhs, rhs, at_ in (("var", '<assgn>.<var> = "x"', ("<var>", "v"), "<rhs>", var_x("v")), ("rhs-var", '<assgn>.<rhs>.<var> = "x"', "<var>", ("<var>", "v"), var_x("v")),
                                     ("rhs-digit", '<assgn>.<rhs>.<digit> = "1"', "<var>", ("<digit>", "v"), eq("v", "1"))):
        ma, mb = m2(lhs, rhs)
        add("grammar-revision", f"assgn2-universal-{nm}", A2, sugar, ("and", q("forall", "<assgn>", "a", ma, "start", at_), q("forall", "<assgn>", "b", mb, "start", at_)))
        add("grammar-revision", f"assgn2-existential-{nm}", A2, "exists <assgn> a: a" + sugar[len("<assgn>"):], ("or", q("exists", "<assgn>", "a", ma, "start", at_), q("exists", "<assgn>", "b", mb, "start", at_)))
    P2 = "pairs2"
    mp = mx("(", ("<item>", "it"), ",", "<item>", ")")
    mq = mx("!", ("<item>", "jt"))
    add("grammar-revision", "pairs2-universal", P2, '<pair>.<item> = "1"', ("and", q("forall", "<pair>", "p", mp, "start", eq("it", "1")), q("forall", "<pair>", "p2", mq, "start", eq("jt", "1"))))
    add("grammar-revision", "pairs2-existential", P2, 'exists <pair> p: p.<item> = "2"', ("or", q("exists", "<pair>", "p", mp, "start", eq("it", "2")), q("exists", "<pair>", "p2", mq, "start", eq("jt", "2"))))
    add("grammar-revision", "pairs2-index-2", P2, '<pair>.<item>[2] = "1"', q("forall", "<pair>", "p", mx("(", "<item>", ",", ("<item>", "it"), ")"), "start", eq("it", "1")))
    add("grammar-revision", "pairs-after-pairs2", "pairs", '<pair>.<item> = "1"', q("forall", "<pair>", "p", mp, "start", eq("it", "1")))
    return P


def _trees(name, tier):
    cg = canon(GRAMS[name])
    if name in ("assgn", "list"):
        return common.trees_of(name, "quick")
    if name == "pairs":
        return closed_trees(cg, "<start>", 7, max_nodes=30)
    if name in ("assgn2", "pairs2"):
        ts = closed_trees(cg, "<start>", 6 if name == "assgn2" else 7, max_nodes=20 if name == "assgn2" else 24)
        return ts[:: max(1, len(ts) // 300)] if tier == "quick" else ts
    ts = closed_trees(cg, "<start>", 3)
    return ts[:: max(1, len(ts) // (150 if tier == "quick" else 1200))]


HISTORIES = [("assgn", "assgn2"), ("assgn2", "assgn"), ("pairs", "pairs2"), ("pairs2", "pairs"), ("assgn", "assgn"), ("list", "assgn2")]


def chunks(tier, seed):
    P = pairs(tier)
    return [dict(lo=i, hi=min(len(P), i + 3), tier=tier) for i in range(0, len(P), 3)] + [dict(history=list(h), tier=tier) for h in HISTORIES]


def history_chunk(r, first, second, tier):
    """parse history: every sugared text of both grammars is parsed under grammar `first`, THEN the pairs of grammar `second` are judged in
    the same process - the translation may depend on the grammar passed to parse_isla only, not on what was parsed before"""
    P = pairs(tier)
    sugars = [p for p in P if p[2] in (first, second) and p[0].startswith(("xpath", "grammar-revision", "free", "combination", "no-name"))]
    n = 0
    for cls, sub, gname, sugar, core in sugars:
        try:
            with time_cap(60):
                common.parse(sugar, GRAMS[first])
            n += 1
        except BaseException:  # noqa
            pass  # a text of the other revision may not be a constraint over this one
    r.extra[f"history:{first}->{second}:parsed-first"] += n
    cg = canon(GRAMS[second])
    trees = [(with_ids(t), to_dt(with_ids(t)), sem.Ctx(cg, with_ids(t))) for t in _trees(second, tier)]
    for cls, sub, gname, sugar, core in sugars:
        if gname == second:
            before = len(r.viols)
            check_pair(r, cls, sub, gname, sugar, core, trees, cg)
            for v in r.viols[before:]:
                v["case"]["history"] = [first, second]
                v["what"] += f" [after parsing all texts under grammar {first}]"
    r.sample({"history": [first, second], "texts parsed first": n})


def check_pair(r, cls, sub, gname, sugar, core, trees, cg):
    from isla.evaluator import evaluate

    g = GRAMS[gname]
    case = dict(cls=cls, sub=sub, g=gname, sugar=sugar)
    r.state(gname, sugar)
    try:
        with time_cap(60):
            parsed = common.parse(sugar, g)
    except CaseTimeout:
        r.caps["parse_60s_cap"] += 1
        return
    except BaseException as e:  # noqa
        r.evals += 1
        r.viol(f"sugar-rejected/{cls}/{sub}", f"documented sugar {sugar!r} is rejected by parse_isla: {type(e).__name__}: {str(e)[:120]}", case, "accepted", type(e).__name__)
        return
    readings = core[1:] if core[0] == "readings" else (core,)
    core = readings[0]
    for root, dt, ctx in trees:
        exps = [sem.sat_ctx(ctx, c) for c in readings]
        exp = exps[0]
        r.evals += 1
        r.transitions += 1
        if exp is sem.EITHER or any(e != exp for e in exps):
            r.outcomes["tree-not-judged:readings-differ-or-either"] += 1
            continue
        r.verdict((cls, sub), exp)
        try:
            got = common.tv(evaluate(parsed, dt, g))
        except BaseException as e:  # noqa
            got = "EXC:" + common.exc_key(e)
        if got != exp:
            r.viol(f"sugar-differs-from-core/{cls}/{sub}", f"{sugar!r} evaluates {got} on {tstr(root)!r}; its documented core form {sem.to_isla(core)!r} is {exp}", dict(case, tree=tjson(root)), exp, got)
            return


def run_chunk(chunk):
    r = Result()
    tier = chunk["tier"]
    if "history" in chunk:
        history_chunk(r, chunk["history"][0], chunk["history"][1], tier)
        return r
    cache = {}
    for cls, sub, gname, sugar, core in pairs(tier)[chunk["lo"]:chunk["hi"]]:
        if gname not in cache:
            cg = canon(GRAMS[gname])
            cache[gname] = ([(with_ids(t), to_dt(with_ids(t)), sem.Ctx(cg, with_ids(t))) for t in _trees(gname, tier)], cg)
        trees, cg = cache[gname]
        check_pair(r, cls, sub, gname, sugar, core, trees, cg)
        r.sample({"rule": cls, "sugar": sugar, "core": sem.to_isla(core[1] if core[0] == "readings" else core), "trees": len(trees)}, limit=2)
    return r


def replay(case):
    r = Result(keep_all=True)
    if case.get("history"):
        history_chunk(r, case["history"][0], case["history"][1], "quick")
        return [v for v in r.viols if v["case"]["sugar"] == case["sugar"]]
    for cls, sub, gname, sugar, core in pairs("quick"):
        if sugar == case["sugar"] and gname == case["g"]:
            cg = canon(GRAMS[gname])
            ts = _trees(gname, "quick")
            if case.get("tree"):
                ts = [from_tjson(case["tree"])]
                trees = [(t, to_dt(t), sem.Ctx(cg, t)) for t in ts]
            else:
                trees = [(with_ids(t), to_dt(with_ids(t)), sem.Ctx(cg, with_ids(t))) for t in ts]
            check_pair(r, cls, sub, gname, sugar, core, trees, cg)
    return r.viols
