"""C10 — the parser accepts exactly the grammar's language and returns faithful trees.

All generated grammars (three families, ~17k) and the catalogue x ALL strings over the grammar's
terminal characters up to a length bound, through EarleyParser.parse, ISLaSolver.parse
(skip_check) and ISLaSolver.parse(nonterminal=N) for every nonterminal N.
Oracle: mc.ref.member (CYK-style fixpoint, independent of the Earley parser) + tree validity.
"""
import itertools

from ..ref import member
from ..ref.reftree import canon, is_nt, tstr
from ..runner import Result, time_cap, CaseTimeout
from ..universe import grammars as GR
from . import common

PROPERTY = "C10"
LEVEL = "model_checking"
RULE = (
    "every grammar of the generated families (<start> ::= <A>; <A>[, <B>] with 1-2 alternatives of <= 2 or 3 symbols over "
    "{a, b, <A>, <B>} or epsilon; plus a three-nonterminal family built around indirect nullability; well-formed; no cyclic nullable/unit derivation) and of the catalogue x every string over the "
    "terminal characters up to length L x {EarleyParser.parse, ISLaSolver.parse, ISLaSolver.parse(nonterminal=N) for each N}; "
    "a schema is a grammar; non-trivial iff the string set contains members and non-members"
)
ASSUMPTIONS = [
    "well-formed grammar = ISLa's own statement (CLI help): <start> has a single alternative consisting of one nonterminal",
    "membership oracle mc/ref/member.py; at most 40 trees per (grammar, string) are pulled from the parser and validated",
]
TASKS_PER_CHILD = 3

FAMILIES = ["1nt2", "1nt3", "2nt2", "3ntN"]
CAT_PARTS = 8


def _strings(alphabet, L):
    out = [""]
    for n in range(1, L + 1):
        out.extend("".join(p) for p in itertools.product(alphabet, repeat=n))
    return out


def chunks(tier, seed):
    out = []
    for fam in FAMILIES:
        if fam == "3ntN":
            fam = "3ntN3" if tier == "quick" else "3ntN4"
        n = sum(1 for _ in GR.generated(fam))
        per = 60 if fam in ("1nt2", "1nt3") else 180
        for i in range(0, n, per):
            out.append(dict(fam=fam, lo=i, hi=min(n, i + per), tier=tier))
    for name in ["assgn", "list", "block", "null", "amb", "signed", "tags"]:
        for part in range(CAT_PARTS):
            out.append(dict(fam="cat", name=name, tier=tier, part=part))
    # long-running catalogue slices first
    out.sort(key=lambda c: 0 if c["fam"] == "cat" else 1)
    return out


def pt_valid(cg, pt, expect_label=None):
    """parse tree (sym, children) is a derivation tree of cg; adjacent terminal children are
    compared as one text (the parser may split or coalesce terminal text)."""
    sym, ch = pt
    if expect_label is not None and sym != expect_label:
        return False
    if not is_nt(sym):
        return not ch
    if sym not in cg or ch is None:
        return False
    labs = []
    for c in ch:
        if is_nt(c[0]):
            labs.append(c[0])
        elif c[0] != "":
            if labs and not is_nt(labs[-1]) and labs[-1] != "":
                labs[-1] += c[0]
            else:
                labs.append(c[0])
    if labs not in [list(a) for a in cg[sym]]:
        return False
    return all(pt_valid(cg, c) for c in ch)


def pt_str(pt):
    sym, ch = pt
    if not ch:
        return "" if is_nt(sym) else sym
    return "".join(pt_str(c) for c in ch)


def check_grammar(r, g, gid, strings, solver_level, tier, lang_bound=6):
    from isla.parser import EarleyParser
    from isla.solver import ISLaSolver
    from isla.derivation_tree import DerivationTree

    cg = canon(g)
    maxlen = min(lang_bound, max(len(w) for w in strings))
    blang = member.bounded_lang(cg, maxlen)

    class _Lang:
        """w in lang[N]: bounded fixpoint for short strings, CYK table for longer ones"""

        def __getitem__(self, N):
            outer = self

            class _S:
                def __contains__(self, w):
                    return (w in blang[N]) if len(w) <= maxlen else member.member(cg, N, w)

            return _S()

    lang = _Lang()
    r.state(gid)
    try:
        parser = EarleyParser(g)
    except CaseTimeout:
        raise
    except Exception as e:  # noqa
        r.viol(f"earley/constructor/{common.exc_key(e)}", f"EarleyParser({g}) raised {type(e).__name__}: {str(e)[:100]}", dict(g=g, w="", entry="earley"))
        return
    solver = None
    if solver_level:
        try:
            solver = ISLaSolver(g)
        except CaseTimeout:
            raise
        except Exception as e:  # noqa
            r.viol(f"solver/constructor/{common.exc_key(e)}", f"ISLaSolver({g}) raised {type(e).__name__}: {str(e)[:100]}", dict(g=g, w="", entry="solver"))
    for wi, w in enumerate(strings):
        exp = w in lang["<start>"]
        r.verdict(gid, exp)
        _one(r, cg, g, w, exp, "earley", lambda: list(itertools.islice(parser.parse(w), 40)), "<start>")
        if solver is not None and wi % solver_level == 0:
            _one(r, cg, g, w, exp, "solver", lambda: [solver.parse(w, skip_check=True, silent=True)], "<start>")
            for N in cg:
                if N == "<start>":
                    continue
                expN = w in lang[N]
                _one(r, cg, g, w, expN, "solver-nt", lambda: [solver.parse(w, nonterminal=N, skip_check=True, silent=True)], N)


def _one(r, cg, g, w, exp, entry, call, root):
    from isla.derivation_tree import DerivationTree

    r.evals += 1
    r.transitions += 1
    case = dict(g=g, w=w, entry=entry, root=root)
    try:
        trees = call()
        got = True
    except SyntaxError:
        trees = []
        got = False
    except CaseTimeout:
        raise
    except Exception as e:  # noqa
        r.viol(f"{entry}/raises/{common.exc_key(e)}", f"{entry} on {w!r} (in language: {exp}) raised {type(e).__name__}: {str(e)[:80]} for grammar {g}", case, exp, "exception")
        return
    if got and not trees:
        got = False
    r.outcomes[f"{entry}:{'accept' if got else 'reject'}"] += 1
    if got != exp:
        r.viol(f"{entry}/{'accepts-nonmember' if got else 'rejects-member'}", f"{entry}: {w!r} {'not ' if not exp else ''}in L({root}) but parser {'accepts' if got else 'raises SyntaxError'}; grammar {g}", case, exp, got)
        return
    for t in trees:
        pt = t.to_parse_tree() if isinstance(t, DerivationTree) else t
        if pt_str(pt) != w:
            r.viol(f"{entry}/tree-yield-differs", f"{entry}: tree for {w!r} has yield {pt_str(pt)!r}; grammar {g}", case, w, pt_str(pt))
            return
        if isinstance(t, DerivationTree) and str(t) != w:
            r.viol(f"{entry}/tree-string-differs", f"{entry}: str(tree) {str(t)!r} != input {w!r}; grammar {g}", case, w, str(t))
            return
        if not pt_valid(cg, pt, root):
            r.viol(f"{entry}/invalid-tree", f"{entry}: tree for {w!r} is not a derivation tree rooted in {root}: {pt}; grammar {g}", case, "valid tree", str(pt)[:200])
            return


def run_chunk(chunk):
    r = Result()
    tier = chunk["tier"]
    if chunk["fam"] == "cat":
        name = chunk["name"]
        g = GR.cat(name)
        cg = canon(g)
        alpha = sorted({ch for alts in cg.values() for alt in alts for s in alt if not is_nt(s) for ch in s})
        L = {"quick": 4, "thorough": 5}[tier] if len(alpha) > 4 else {"quick": 6, "thorough": 8}[tier]
        strings = _strings(alpha, L)
        # plus all members up to a larger bound (long valid inputs)
        # plus the yields of all closed trees of the tree universe (long valid inputs) and one-character corruptions
        from ..ref.reftree import tstr as _ts

        ys = sorted({_ts(t) for t in common.trees_of(name, tier)} if name in common.TREE_BOUNDS else set())
        more = [w for w in ys if len(w) > L]
        more += [w[:k] + c + w[k + 1:] for w in more[:60] for k in (0, len(w) // 2, len(w) - 1) for c in alpha[:2]]
        strings += sorted(set(more))[:600]
        strings = strings[chunk["part"]::CAT_PARTS]
        if not strings:
            return r
        try:
            with time_cap(1200):
                check_grammar(r, g, "cat:" + name, strings, 1 if tier == "thorough" else 2, tier, lang_bound=L)
        except CaseTimeout:
            r.caps["grammar_timeout_1200s"] += 1
        r.sample({"grammar": g, "strings": len(strings), "alphabet": alpha})
        return r
    fam = chunk["fam"]
    L = 4 if tier == "quick" else 6
    strings = _strings("ab", L)
    gs = list(itertools.islice(GR.generated(fam), chunk["lo"], chunk["hi"]))
    for k, g in enumerate(gs):
        gi = chunk["lo"] + k
        # ISLaSolver.parse costs ~10 ms (deep copy + parser construction per call): quick runs it on both
        # one-nonterminal families and every 8th two-nonterminal grammar, thorough on all
        solver_level = 1 if (tier == "thorough" or fam in ("1nt2", "1nt3") or gi % 8 == 0) else 0
        try:
            with time_cap(300):
                check_grammar(r, g, f"{fam}:{gi}", strings, solver_level, tier)
        except CaseTimeout:
            r.caps["grammar_timeout_300s"] += 1
        if k == 0:
            r.sample({"family": fam, "index": gi, "grammar": g, "strings": len(strings)})
    return r


def replay(case):
    r = Result()
    g = case["g"]
    check_grammar(r, g, "replay", [case["w"]], 1, "quick")
    return [v for v in r.viols if v["case"]["entry"] == case["entry"]] or r.viols
