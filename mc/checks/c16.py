"""C16 — derivation-tree operations keep paths, strings, openness and identity consistent.

BFS over histories of tree operations (mutators) freely interleaved with cache-filling
observers, replayed from scratch on real DerivationTree objects next to a nested-tuple
reference; all invariants are evaluated in every state.
"""
import collections
import itertools

from .. import bfs
from ..bfs import Violation
from ..ref import reftree as RT
from ..ref.reftree import canon, paths, at, is_nt, tstr, size, depth
from ..runner import Result, time_cap, CaseTimeout
from ..universe import grammars as GR
from ..universe.trees import closed_trees

PROPERTY = "C16"
LEVEL = "model_checking"
RULE = (
    "explicit-state BFS: seed trees x histories (<= depth bound) over replace_path / substitute / expand_one_step / "
    "new_ids / parse-tree round trip interleaved with cache-filling observers; state key = reference tree (with ids) + "
    "per-node cache flags read from the real object; a state is non-trivial if it was reached by at least one mutator"
)
ASSUMPTIONS = [
    "constructor hints is_open=/hash= are never passed by the harness (a wrong hint would be misuse)",
    "replacement trees carry fresh node ids (substitute() documents no behaviour for clashing ids)",
    "module-level lru caches of DerivationTree are cleared before each replay so that a state is determined by its history",
]
TASKS_PER_CHILD = 6

OBSERVERS = ["is_open", "str", "to_string_open", "hash", "structural_hash", "paths", "trie", "len", "depth", "k_paths", "get_subtree"]


def _seeds():
    A = GR.ASSGN
    N = GR.NULL
    L = GR.LIST
    W = GR.WIDE
    t = lambda l, c=None: (l, None if c is None else tuple(c))
    leaf = lambda s: (s, ())
    s0 = t("<start>", [t("<stmt>", [t("<assgn>", [t("<var>", [leaf("x")]), leaf(" := "), t("<rhs>", [t("<digit>", [leaf("1")])])])])])
    s1 = t("<start>", [t("<stmt>", [t("<assgn>"), leaf(" ; "), t("<stmt>")])])
    s2 = t("<start>", [t("<A>", [t("<B>", [leaf("")]), t("<C>", [])])])
    s3 = t("<start>", [t("<row>", [t("<c>", [leaf("x" if i % 3 else "y")]) for i in range(32)])])
    s4 = t("<start>", [t("<list>", [t("<num>", [t("<d>", [leaf("0")]), t("<num>")])])])
    s5 = t("<start>")
    return [("assgn", A, s0), ("assgn", A, s1), ("null", N, s2), ("wide", W, s3), ("list", L, s4), ("assgn", A, s5)]


def _small_closed(cg, nt, d=6):
    """one small closed tree of nt (first alternative that closes within depth d)."""
    if d == 0:
        return None
    for alt in sorted(cg[nt], key=len):
        kids = []
        for s in alt:
            if is_nt(s):
                k = _small_closed(cg, s, d - 1)
                if k is None:
                    break
                kids.append(k)
            else:
                kids.append((s, ()))
        else:
            return (nt, tuple(kids) if kids else (("", ()),))
    return None


def _replacements(cg, lab):
    """kind -> reference tree (without ids)"""
    if not is_nt(lab):
        return {"term": ("z", ())}
    out = {"open": (lab, None), "closed_leaf": (lab, ())}
    sc = _small_closed(cg, lab)
    if sc is not None:
        out["closed"] = sc
    if cg.get(lab):
        alt = max(cg[lab], key=len)
        if alt:
            out["open_sub"] = (lab, tuple((s, None) if is_nt(s) else (s, ()) for s in alt))
    return out


class State:
    pass


def _cache_flags(dt):
    """per-node cache flags of the real object (part of the canonical key)."""
    out = []
    for _p, n in _walk(dt):
        d = n.__dict__
        out.append((
            d.get("_DerivationTree__hash") is not None,
            d.get("_DerivationTree__structural_hash") is not None,
            d.get("_DerivationTree__is_open"),
            d.get("_DerivationTree__len") is not None,
            tuple(sorted(d.get("_DerivationTree__k_paths", {}))),
        ))
    return tuple(out)


def _walk(dt, p=()):
    yield p, dt
    for i, c in enumerate(dt.children or ()):
        yield from _walk(c, p + (i,))


def _clear_lru():
    from isla.derivation_tree import DerivationTree as DT

    for name in ("get_subtree", "paths", "trie", "depth", "to_string"):
        f = getattr(DT, name)
        if hasattr(f, "cache_clear"):
            f.cache_clear()


def _fresh_ids(t, counter):
    ch = None if t[1] is None else tuple(_fresh_ids(c, counter) for c in t[1])
    return (t[0], ch, next(counter))


STRUCT_HASHES = {}


def check_invariants(dt, ref, ctx):
    """All C16 invariants of the real tree dt against reference ref (with ids)."""
    def bad(key, what, exp=None, got=None):
        raise Violation(key, what, exp, got)

    try:
        s = dt.to_string()
        if s != tstr(ref):
            bad("string/yield", f"to_string() {s!r} != concatenation of terminal leaves {tstr(ref)!r}", tstr(ref), s)
        exp_open_str = "".join((st[0] if st[1] is None else ("" if is_nt(st[0]) else st[0])) for _p, st in paths(ref) if not st[1])
        if str(dt) != exp_open_str:
            bad("string/str-open-leaves", f"str() {str(dt)!r} != {exp_open_str!r}", exp_open_str, str(dt))
        if dt.is_open() != RT.is_open(ref):
            bad("is_open", f"is_open() {dt.is_open()} but reference {RT.is_open(ref)} for {ref!r}", RT.is_open(ref), dt.is_open())
        if dt.is_complete() != (not RT.is_open(ref)):
            bad("is_complete", "is_complete() disagrees with openness")
        rp = [(p, st[0], st[2]) for p, st in paths(ref)]
        ip = [(p, n.value, n.id) for p, n in dt.paths()]
        if ip != rp:
            bad("paths/order-or-content", f"paths() differs from document order: {ip[:6]} vs {rp[:6]}", rp[:8], ip[:8])
        nodes = dict(dt.paths())
        ids = [st[2] for _p, st in paths(ref)]
        unique = len(set(ids)) == len(ids)
        if dt.has_unique_ids() != unique:
            bad("has_unique_ids", "has_unique_ids() wrong")
        for p, st in paths(ref):
            n = dt.get_subtree(p)
            # equality, not identity: get_subtree()/paths() are lru caches keyed by tree equality
            if n is None or n.id != nodes[p].id or n != nodes[p] or n.id != st[2] or n.value != st[0]:
                bad("get_subtree/node", f"get_subtree({p}) is not the node paths() lists there")
            if not dt.is_valid_path(p):
                bad("is_valid_path/valid-rejected", f"is_valid_path({p}) False for an existing path")
            k = len(st[1] or ())
            if dt.is_valid_path(p + (k,)):
                bad("is_valid_path/invalid-accepted", f"is_valid_path({p + (k,)}) True for a non-existing path")
            if unique and dt.find_node(st[2]) != p:
                bad("find_node", f"find_node(id of {p}) = {dt.find_node(st[2])}", p, dt.find_node(st[2]))
            if n.num_children() != k:
                bad("num_children", f"num_children at {p}")
        # next_path iteration
        seq = [()]
        while True:
            nx = dt.next_path(seq[-1])
            if nx is None:
                break
            seq.append(nx)
            if len(seq) > len(rp) + 2:
                break
        if seq != [p for p, _l, _i in rp]:
            bad("next_path/iteration", f"next_path iteration {seq[:8]} != document order", [p for p, _l, _i in rp][:8], seq[:8])
        exp_leaves = [p for p, st in paths(ref) if not st[1]]
        if [p for p, _ in dt.leaves()] != exp_leaves:
            bad("leaves", "leaves() differs")
        exp_ol = [p for p, st in paths(ref) if st[1] is None]
        if [p for p, _ in dt.open_leaves()] != exp_ol:
            bad("open_leaves", "open_leaves() differs")
        for lab in {st[0] for _p, st in paths(ref)}:
            if [p for p, _ in dt.filter(lambda t: t.value == lab)] != [p for p, st in paths(ref) if st[0] == lab]:
                bad("filter", f"filter(value == {lab!r}) differs")
        if len(dt) != size(ref):
            bad("len", f"len() {len(dt)} != {size(ref)}", size(ref), len(dt))
        if dt.depth() != depth(ref):
            bad("depth", f"depth() {dt.depth()} != {depth(ref)}", depth(ref), dt.depth())
        # trie view
        trie = dt.trie()
        allp = [p for p, _l, _i in rp]
        tk = list(trie.keys())
        if tk != allp:
            missing = [p for p in allp if p not in set(tk)]
            cls = "child-index-above-27" if missing and all(max(p, default=0) > 27 for p in missing) and set(tk) <= set(allp) and [p for p in allp if p in set(tk)] == tk else "other"
            bad(f"trie/keys/{cls}", f"trie().keys() lists {len(tk)} of {len(allp)} paths; missing e.g. {missing[:3]}", len(allp), len(tk))
        tv = [(p, n.id) for p, n in trie.values()]
        if tv != [(p, i) for p, _l, i in rp]:
            bad("trie/values", "trie().values() differs from paths()")
        ti = [(k, p, n.id) for k, (p, n) in trie.items()]
        if ti != [(p, p, i) for p, _l, i in rp]:
            bad("trie/items", "trie().items() differs from paths()")
        for p, st in paths(ref):
            sub = trie.get_subtrie(p)
            exp = [(q, s2[2]) for q, s2 in paths(st)]
            got_keys = list(sub.keys())
            got_vals = [(q, n.id) for q, n in sub.values()]
            got_items = [(k, q, n.id) for k, (q, n) in sub.items()]
            if got_keys != [q for q, _ in exp]:
                miss = [q for q, _ in exp if q not in set(got_keys)]
                cls = "child-index-above-27" if miss and all(max(p + q, default=0) > 27 for q in miss) else "other"
                bad(f"subtrie/keys/{cls}", f"get_subtrie({p}).keys() = {got_keys[:5]} expected {[q for q, _ in exp][:5]}")
            if got_vals != exp:
                bad("subtrie/values", f"get_subtrie({p}).values() = {got_vals[:4]} expected {exp[:4]}", exp[:6], got_vals[:6])
            if got_items != [(q, q, i) for q, i in exp]:
                bad("subtrie/items", f"get_subtrie({p}).items() differs")
            for q, i in exp[:3]:
                try:
                    v = trie[p + q]
                    if v[0] != p + q or v[1].id != at(ref, p + q)[2]:
                        bad("trie/getitem", f"trie[{p + q}] wrong")
                except KeyError:
                    bad("trie/getitem-keyerror/" + ("child-index-above-27" if max(p + q, default=0) > 27 else "other"), f"trie[{p + q}] KeyError")
        # structural hash / equality
        sh = dt.structural_hash()
        skey = RT.strip_ids(ref)
        prev = ctx["struct"].setdefault(skey, sh)
        if prev != sh:
            bad("structural_hash/equal-structure-different-hash", f"structural hashes differ for equal structures {skey!r}")
        twin = RT.to_dt(RT.strip_ids(ref) + (None,), keep_ids=False) if False else RT.to_dt(_fresh_ids(ref, itertools.count(5_000_000)))
        if not dt.structurally_equal(twin) or not twin.structurally_equal(dt):
            bad("structurally_equal/false-for-equal", "structurally_equal() False for an equal structure")
        if twin.structural_hash() != sh:
            bad("structural_hash/fresh-twin", "structural hash differs from a freshly built equal structure")
        same = RT.to_dt(ref)
        if not (dt == same) or hash(dt) != hash(same):
            bad("eq-hash/same-ids", "== / hash differ from a freshly built tree with the same ids")
        if RT.from_dt(dt) != ref:
            bad("structure", f"tree structure/ids differ from reference", ref, RT.from_dt(dt))
    except Violation:
        raise
    except CaseTimeout:
        raise
    except Exception as e:  # noqa
        import traceback

        tb = traceback.extract_tb(e.__traceback__)
        site = next((f"{f.name}" for f in reversed(tb) if "/isla/" in f.filename), "harness")
        raise Violation(f"exception/{type(e).__name__}/{site}", f"{type(e).__name__}: {str(e)[:120]} in {site}")


def _apply_observer(dt, name, graph):
    if name == "is_open":
        dt.is_open()
    elif name == "str":
        str(dt)
    elif name == "to_string_open":
        dt.to_string(True)
        dt.to_string()
    elif name == "hash":
        hash(dt)
    elif name == "structural_hash":
        dt.structural_hash()
    elif name == "paths":
        dt.paths()
    elif name == "trie":
        dt.trie()
    elif name == "len":
        len(dt)
    elif name == "depth":
        dt.depth()
    elif name == "k_paths":
        dt.k_paths(graph, 3)
    elif name == "get_subtree":
        for p, _ in list(_walk(dt))[:4]:
            dt.get_subtree(p)


class Harness:
    def __init__(self, seed_idx):
        from grammar_graph import gg

        self.gname, self.grammar, self.seed = _seeds()[seed_idx]
        self.seed_idx = seed_idx
        self.cg = canon(self.grammar)
        self.graph = gg.GrammarGraph.from_grammar(self.grammar)
        from isla.helpers import canonical

        self.icg = canonical(self.grammar)
        self.ctx = {"struct": {}}
        self.mutated_states = 0

    def build(self, hist):
        from isla.derivation_tree import DerivationTree as DT

        _clear_lru()
        counter = itertools.count(1000)
        ref = RT.with_ids(self.seed)
        dt = RT.to_dt(ref)
        DT.next_id = 100_000
        nmut = 0
        for op in hist[1:]:
            kind = op[0]
            if kind == "obs":
                try:
                    _apply_observer(dt, op[1], self.graph)
                except Exception as e:  # noqa
                    raise Violation(f"exception/{type(e).__name__}/observer-{op[1]}", f"observer {op[1]} raised {type(e).__name__}: {str(e)[:100]}")
                continue
            nmut += 1
            before = RT.from_dt(dt)
            try:
                dt2, ref2 = self.apply_mutator(dt, ref, op, counter)
            except Violation:
                raise
            except Exception as e:  # noqa
                raise Violation(f"exception/{type(e).__name__}/{kind}", f"{kind} raised {type(e).__name__}: {str(e)[:100]}")
            if RT.from_dt(dt) != before:
                raise Violation(f"immutability/{kind}", f"receiver changed by {kind}")
            dt, ref = dt2, ref2
        check_invariants_pre = _cache_flags(dt)
        st = State()
        st.key = (ref, check_invariants_pre)
        st.ref = ref
        st.nmut = nmut
        check_invariants(dt, ref, self.ctx)
        return st

    def apply_mutator(self, dt, ref, op, counter):
        from isla.derivation_tree import DerivationTree as DT

        kind = op[0]
        if kind == "replace":
            _, p, rk, retain = op
            p = tuple(p)
            r = _fresh_ids(_replacements(self.cg, at(ref, p)[0])[rk], counter)
            rdt = RT.to_dt(r)
            old_nodes = {q: n for q, n in _walk(dt)}
            new = dt.replace_path(p, rdt, retain_id=retain)
            if retain:
                r = (r[0], r[1], at(ref, p)[2])
            ref2 = RT.replace(ref, p, r)
            for q, n in _walk(new):
                if q[: len(p)] == p:
                    continue  # inside the replaced subtree
                if p[: len(q)] == q:
                    # ancestor: must keep id and label
                    if n.id != old_nodes[q].id or n.value != old_nodes[q].value:
                        raise Violation("replace_path/ancestor-id-or-label", f"ancestor at {q} changed id/label")
                    continue
                if n is not old_nodes.get(q):
                    raise Violation("replace_path/sharing", f"node at {q} outside the replaced path is not the identical object")
            if not retain and new.get_subtree(p) is not rdt:
                raise Violation("replace_path/replacement-identity", "subtree at the path is not the replacement tree")
            return new, ref2
        if kind == "subst":
            _, ps, rks = op
            mapping = {}
            ref2 = ref
            order = sorted(range(len(ps)), key=lambda i: tuple(ps[i]))
            done = []
            for i in order:
                p = tuple(ps[i])
                if any(p[: len(q)] == q for q in done):
                    continue  # nested below an already replaced key: gone
                r = _fresh_ids(_replacements(self.cg, at(ref, p)[0])[rks[i]], counter)
                mapping[i] = r
                ref2 = RT.replace(ref2, p, r)
                done.append(p)
            m = {}
            for i in range(len(ps)):
                p = tuple(ps[i])
                r = mapping.get(i)
                if r is None:
                    r = _fresh_ids(_replacements(self.cg, at(ref, p)[0])[rks[i]], counter)
                m[dt.get_subtree(p)] = RT.to_dt(r)
            return dt.substitute(m), ref2
        if kind == "expand":
            _, k = op
            res = dt.expand_one_step(self.icg)
            ol = [p for p, st in paths(ref) if st[1] is None]
            opts = []
            for p in ol:
                lab = at(ref, p)[0]
                opts.append([(p, alt) for alt in self.cg[lab]])
            exp = []
            for combo in itertools.product(*opts) if ol else []:
                t2 = RT.strip_ids(ref)
                for p, alt in combo:
                    kids = tuple((s, None) if is_nt(s) else (s, ()) for s in alt)
                    t2 = RT.replace(t2, p, (at(ref, p)[0], kids))
                exp.append(t2)
            got = [RT.strip_ids(RT.from_dt(x)) for x in res]
            if sorted(map(repr, got)) != sorted(map(repr, exp)):
                raise Violation("expand_one_step/result-set", f"expand_one_step gives {len(got)} trees, expected {len(exp)}", exp[:3], got[:3])
            if k >= len(res):
                raise Violation("harness/expand-index", "expand index out of range")
            new = res[k]
            nref = RT.from_dt(new)
            old_ids = {st[2]: (p, st[0]) for p, st in paths(ref)}
            found = {st[2]: (p, st[0]) for p, st in paths(nref)}
            for i, pl in old_ids.items():
                if found.get(i) != pl:
                    raise Violation("expand_one_step/ids", f"node id {i} not kept at {pl}")
            return new, nref
        if kind == "new_ids":
            new = dt.new_ids()
            nref = RT.from_dt(new)
            if RT.strip_ids(nref) != RT.strip_ids(ref):
                raise Violation("new_ids/structure", "new_ids() changed the structure")
            old = {st[2] for _p, st in paths(ref)}
            ids = [st[2] for _p, st in paths(nref)]
            if len(set(ids)) != len(ids) or old & set(ids):
                raise Violation("new_ids/ids", "new_ids() reuses ids")
            return new, nref
        if kind == "roundtrip":
            new = DT.from_parse_tree(dt.to_parse_tree())
            nref = RT.from_dt(new)
            if RT.strip_ids(nref) != RT.strip_ids(ref):
                raise Violation("parse-tree-roundtrip/structure", "from_parse_tree(to_parse_tree()) changed the structure", RT.strip_ids(ref), RT.strip_ids(nref))
            return new, nref
        raise KeyError(kind)

    def enabled(self, st):
        ref = st.ref
        ops = []
        allp = [p for p, _ in paths(ref)]
        if self.gname == "wide":
            keep = {(), (0,), (0, 0), (0, 0, 0), (0, 27), (0, 28), (0, 28, 0), (0, 31), (0, 31, 0)}
            allp = [p for p in allp if p in keep]
        if len(allp) > 14:
            allp = allp[:14]
        for p in allp:
            for rk in _replacements(self.cg, at(ref, p)[0]):
                ops.append(("replace", p, rk, False))
            if is_nt(at(ref, p)[0]):
                ops.append(("replace", p, "open", True))
        nts = [p for p in allp if is_nt(at(ref, p)[0]) and p]
        for p in nts[:4]:
            ops.append(("subst", (p,), ("open",)))
        for p, q in itertools.combinations(nts[:5], 2):
            ops.append(("subst", (p, q), ("closed_leaf", "open")))
        nopen = [p for p, s in paths(ref) if s[1] is None]
        if nopen and len(nopen) <= 3:
            nexp = 1
            for p in nopen:
                nexp *= len(self.cg[at(ref, p)[0]])
            for k in range(min(nexp, 4)):
                ops.append(("expand", k))
        ops.append(("new_ids",))
        ops.append(("roundtrip",))
        valid = RT.valid(self.cg, ref)
        for o in OBSERVERS:
            if o == "k_paths" and not valid:
                continue  # k-path computation is only defined for trees of the grammar
            ops.append(("obs", o))
        return ops


def chunks(tier, seed):
    out = []
    depth_bound = 3 if tier == "quick" else 4
    for si in range(len(_seeds())):
        h = Harness(si)
        try:
            root = h.build((("seed", si),))
        except Violation:
            # the seed tree itself violates an invariant: let one chunk rediscover and report it
            out.append(dict(seed=si, first=("obs", "is_open"), depth=1))
            continue
        for op in h.enabled(root):
            out.append(dict(seed=si, first=op, depth=depth_bound))
    return out


def run_chunk(chunk):
    r = Result()
    h = Harness(chunk["seed"])
    stats = collections.Counter()
    root_hist = (("seed", chunk["seed"]), tuple(chunk["first"]) if not isinstance(chunk["first"], tuple) else chunk["first"])

    def on_violation(hist, v):
        r.viol(v.key, f"{v.what} after history {_fmt(hist)}", dict(seed=chunk["seed"], hist=[list(o) for o in hist[1:]]), v.expected, v.observed)

    try:
        with time_cap(900):
            # depth 4 (thorough): at most 2000 distinct states per (seed, first operation); transitions out of the kept states are still all built and judged
            seen, trans, deepest, capped = bfs.search([root_hist], h.build, h.enabled, chunk["depth"], on_violation, stats, max_states=2000 if chunk["depth"] >= 4 else None)
    except CaseTimeout:
        r.caps["chunk_timeout_900s"] += 1
        return r
    if capped:
        r.caps["depth4_state_cap_2000_per_first_operation"] += 1
    for k in seen:
        r.states.add(repr(k).encode())
    r.transitions += trans
    r.evals += len(seen) + stats["revisits"]
    r.extra["revisits"] += stats["revisits"]
    r.extra["max_depth"] = max(r.extra["max_depth"], deepest - 1)
    r.verdict(("seed", chunk["seed"], str(chunk["first"][0])), "reached")
    r.verdict(("seed", chunk["seed"], str(chunk["first"][0])), "states>1" if len(seen) > 1 else "reached")
    r.outcomes[f"seed{chunk['seed']}:{chunk['first'][0]}"] += len(seen)
    r.sample({"seed_tree": tstr(_seeds()[chunk["seed"]][2]) or "<open>", "first_op": list(map(str, chunk["first"])), "states": len(seen), "transitions": trans})
    return r


def _fmt(hist):
    return " ; ".join(" ".join(map(str, o)) for o in hist[1:])


def _tup(o):
    return tuple(_tup(x) if isinstance(x, list) else x for x in o)


def replay(case):
    h = Harness(case["seed"])
    hist = (("seed", case["seed"]),) + tuple(_tup(o) for o in case["hist"])
    try:
        h.build(hist)
    except Violation as v:
        return [dict(key=v.key, what=v.what, case=case, expected=v.expected, observed=v.observed)]
    return []


def finalize(agg, tier):
    return {"max_history_length": agg.extra.get("max_depth", 0)}
