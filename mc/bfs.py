"""BFS — explicit-state breadth-first search over operation histories (DESIGN 2.4).

A state is the operation history that reaches it.  ``build(hist)`` replays the history on
fresh real objects next to the reference model and returns an object with a canonical
``key`` (or raises Violation).  States are deduplicated by key; ``enabled(state)`` lists
the operations to try next.  Everything is replayed from scratch for every state because
live objects with caches cannot be copied faithfully.
"""
import collections


class Violation(Exception):
    def __init__(self, key, what, expected=None, observed=None):
        super().__init__(what)
        self.key = key
        self.what = what
        self.expected = expected
        self.observed = observed


def search(roots, build, enabled, max_depth, on_violation, stats, max_states=None):
    """roots: list of initial histories (tuples).  build(hist) -> state with .key.
    enabled(state) -> list of ops.  Returns (states, transitions, max_depth_reached, capped)."""
    seen = set()
    frontier = collections.deque()
    transitions = 0
    deepest = 0
    capped = False
    for h in roots:
        try:
            s = build(h)
        except Violation as v:
            on_violation(h, v)
            continue
        transitions += len(h) - 1
        if s.key not in seen:
            seen.add(s.key)
            frontier.append((h, s))
    while frontier:
        hist, s = frontier.popleft()
        deepest = max(deepest, len(hist))
        if len(hist) - 1 >= max_depth:
            continue
        for op in enabled(s):
            nh = hist + (op,)
            transitions += 1
            try:
                ns = build(nh)
            except Violation as v:
                on_violation(nh, v)
                continue
            if ns.key in seen:
                stats["revisits"] += 1
                continue
            if max_states is not None and len(seen) >= max_states:
                capped = True
                continue
            seen.add(ns.key)
            frontier.append((nh, ns))
    return seen, transitions, deepest, capped
