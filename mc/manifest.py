"""Regenerates /verif/MANIFEST.json from the table below:  /venv/bin/python -m mc.manifest"""
import json
import os

ROOT = os.path.dirname(os.path.dirname(os.path.abspath(__file__)))

ALL = ["C%02d" % i for i in range(1, 23)]

# id -> (engine, level category, technique, level text, level note, design ref)
CHECKS = {
    "C04": (
        "ENUM",
        "model_checking",
        "bounded exhaustive enumeration of trees x ordered node pairs x predicate instances against a document-order reference model",
        "Every structural predicate instance is compared with an independent pre/post-order reference on every ordered "
        "node pair (identical, nested, both orders) of every tree of five small grammars up to a depth/node bound, through the "
        "predicate function, through evaluate() on a predicate formula and through quantified concrete syntax. "
        "Exhaustive within the stated bounds; says nothing about trees outside them.",
        "Reference predicates in mc/ref/refpred.py are my reading of islaspec.rst (isBefore is given formally there; "
        "'after ... (not below)'); documented-ambiguous corners (nth counting node_2, consecutive in reverse order, level with an "
        "argument labelled NONTERMINAL) accept either answer.",
        "DESIGN.md section 3, C04",
    ),
}

CHECKS["C16"] = (
    "BFS",
    "model_checking",
    "explicit-state breadth-first search over histories of tree operations and cache-filling observers, replayed on real DerivationTree objects against a nested-tuple reference",
    "Breadth-first search over all histories (length <= 3 quick / <= 4 thorough) of replace_path, substitute, expand_one_step, new_ids and "
    "parse-tree round trips, freely interleaved with eleven cache-filling observers, from six seed trees (closed, open, epsilon, a 32-child "
    "row, recursive, single open node). Every reached state is rebuilt from scratch on real objects and ~25 invariants (string, openness, "
    "document-order paths, get_subtree/find_node/next_path/leaves/filter, trie keys/values/items and every subtrie, structural hash/equality, "
    "sharing and immutability under replace_path) are evaluated against the reference. States are merged only if reference tree AND per-node cache flags agree.",
    "Constructor hints (is_open=, hash=) are never passed; replacement trees have fresh ids; module-level lru caches are cleared per replay so a state is a function of its history.",
    "DESIGN.md section 3, C16",
)

CHECKS["C03"] = (
    "ENUM",
    "model_checking",
    "bounded exhaustive enumeration of closed trees x formulas x entry points against an executable reference of the specification's satisfaction relation",
    "All closed trees (depth/node bound) of nine small grammars (incl. a 32-child row and 30 structured cells) x all formulas of a typed universe (two nested tree quantifiers, match "
    "expressions with bindings and optionals, numeric quantifiers with count, every structural predicate, =/str.len/str.to.int atoms, "
    "negation, and/or) are evaluated through evaluate(AST), evaluate(text), a numeric-quantifier wrapping (quantifier-elimination path) "
    "and ISLaSolver.check, and compared with mc/ref/sem.py, a direct transcription of the 'Semantics' section of islaspec.rst with Z3 as "
    "atom oracle. Any UNKNOWN, exception or differing verdict is a violation. Exhaustive within the bounds; nothing is sampled.",
    "The reference is my reading of islaspec.rst; it returns EITHER (accept anything) for documented-ambiguous corners (ambiguous / "
    "epsilon-expanding match expressions, str.to.int on non-numerals, count when in_tree's root is a needle, C04's corners). Z3 is trusted for ground atoms.",
    "DESIGN.md section 3, C03",
)

CHECKS["C05"] = (
    "ENUM",
    "model_checking",
    "bounded exhaustive enumeration of operator skeletons x value tuples, each ground atom decided by ISLa (three observation points) and by Z3",
    "Every SMT-LIB operator the ISLa grammar accepts is instantiated in ~450 skeletons (comparisons, arithmetic incl. div/mod/abs/unary "
    "minus/power and n-ary forms, Boolean structure incl. =>/xor/ite/distinct, all str.* functions, regular-expression constructors one "
    "level deep) and evaluated on ALL value tuples over a string alphabet (empty, newline, quote, backslash, Latin-1 and BMP non-ASCII, "
    "regex metacharacters, padded and very large numerals) and an integer alphabet (negatives, zero divisors): through is_valid(), through "
    "evaluate() with the values taken from tree nodes, and through SMTFormula.substitute_expressions. Each answer must equal Z3's own "
    "verdict on the same ground expression and no call may raise.",
    "Z3 itself is the oracle (property text). Atoms Z3 cannot decide in 3 s are skipped and counted; str.to.int on signed numerals only 'must not raise', on non-numerals excluded.",
    "DESIGN.md section 3, C05",
)

CHECKS["C10"] = (
    "ENUM",
    "model_checking",
    "bounded exhaustive enumeration of grammars x strings through the Earley parser and ISLaSolver.parse against an independent membership fixpoint",
    "All ~27k (quick) / ~67k (thorough) well-formed grammars of four generated families (one and two nonterminals with all alternatives up "
    "to a symbol bound, and a three-nonterminal family built around indirect nullability and definition order) plus seven catalogue grammars "
    "x ALL strings over the terminal characters up to length 4 (quick) / 6 (thorough), plus long members and their one-character corruptions: "
    "the parser must yield a tree iff the string is in the language of <start> (or of the requested nonterminal), raise SyntaxError "
    "otherwise, and every yielded tree must be a valid derivation tree with exactly the input as its string.",
    "Membership oracle: bounded least fixpoint / CYK table in mc/ref/member.py (shares no code with the parser). Grammars follow ISLa's own well-formedness statement (<start> ::= one nonterminal).",
    "DESIGN.md section 3, C10",
)

CHECKS["C06"] = (
    "ENUM",
    "model_checking",
    "bounded exhaustive enumeration of open prefixes x formulas, each definite verdict checked against ALL closed completions under the reference semantics",
    "For four grammars, every distinct open prefix of every closed tree of the universe (one or two - thorough: three - inner nodes opened, "
    "and 'everything below depth d' opened) is evaluated with every formula of a schema-stratified set. Whenever evaluate() answers TRUE or "
    "FALSE, every completion obtained by substituting every closed subtree of a bounded pool for each open leaf is judged by the reference "
    "semantics; a single disagreeing completion is a violation. The formula set includes, per nonterminal, ten atoms over SMT operators the "
    "evaluator hands to Z3 (prefixof, suffixof, contains, indexof, str.<=, replace, at, substr). UNKNOWN is always accepted; a run in which fewer than 5% of verdicts are definite fails as vacuous.",
    "Completions come from bounded pools (stated in the evidence), so 'all completions' means all within the pools; reference semantics as for C03.",
    "DESIGN.md section 3, C06",
)

CHECKS["C09"] = (
    "ENUM",
    "model_checking",
    "bounded exhaustive enumeration of formula ASTs (incl. raw n-ary nodes) x rewrites x closed trees; expected verdict from the reference semantics of the composite's structure",
    "Closed base formulas (schema-stratified core of the typed universe) are combined into twelve composite shapes - through the "
    "simplifying combinators and as raw 2-3-ary ConjunctiveFormula/DisjunctiveFormula/NegatedFormula objects nested to depth 2 - plus "
    "quantifiers over raw n-ary bodies. Every composite goes through ten rewrites (identity, negation, NNF, NNF of the negation, DNF after "
    "NNF deep/shallow, DNF directly, bound-variable renaming, & and | with another formula) and is evaluated on every closed tree. The "
    "expected verdict is computed by the reference semantics from the composite's own structure, so a rewrite that is consistently wrong "
    "on both sides is still caught. Any exception in a rewrite is a violation. Two further families: quantifier bodies built through the "
    "combinators &, |, - from {p, not p, s, not s} in every (l1 op l2) op l3 arrangement, and operands whose bound names collide ({v, v_0, v_1}, "
    "incl. match-expression variables), raw and nested, under every rewrite.",
    "Reference semantics as for C03; base formulas use one type per variable name.",
    "DESIGN.md section 3, C09",
)

CHECKS["C13"] = (
    "ENUM",
    "model_checking",
    "bounded exhaustive enumeration of host trees x inserted trees x method bitmasks x solution limits on insert_tree, every result validated structurally",
    "For seven small grammars (incl. one with a repeated nonterminal in one alternative and one with a single-nonterminal wrapper rule), "
    "every closed host tree up to a node bound, every one-node open prefix of it and the bare open start node is combined with every "
    "insertable tree (each open nonterminal; each one-step and two-step open expansion, i.e. the prefix trees of match expressions), every "
    "method bitmask 1..7 and solution limits {1, 50}. Every returned tree must be a valid derivation tree with the host's root, contain "
    "every host node by id and label, contain every expanded node of the inserted tree by id with its child list, and have unique ids; "
    "any exception (including insert_tree's own assertions) is a violation.",
    "Open leaves of the inserted tree may be filled by same-labelled nodes (that is how trees are connected). Bounds on host size are in the evidence.",
    "DESIGN.md section 3, C13",
)

CHECKS["C12"] = (
    "CPX",
    "model_checking",
    "stateless deviation-bounded exploration of every random answer (choice-point explorer over random.*) of the real fuzzer and mutator, on all open/closed trees up to a bound",
    "The five functions of the random module that fuzzer.py and mutator.py call are replaced by a choice-point explorer. For every open "
    "prefix (ids both fresh and caller-supplied just ahead of the global id counter) of every closed tree - rooted in <start> and in every other "
    "nonterminal, with both encodings of an empty expansion - of five grammars, both fuzzer "
    "classes and two nonterminal-budget settings, expand_tree is run under every answer sequence with at most 3 (thorough 4) deviations from "
    "a fixed default schedule within the first 16 (24) choice points - completely for inputs with one open leaf; Mutator.mutate likewise "
    "on every closed tree with two mutation-count settings; a long-lived coverage fuzzer is driven through all 125 call sequences of "
    "length 3 over five inputs. Every result must be closed, grammar-valid, keep the root and (completion) every already expanded node.",
    "Termination is not part of the property: runs cut by the 3 s cap are counted, not judged. VERIF_SEED only selects the default schedule.",
    "DESIGN.md section 3, C12",
)

CHECKS["C14"] = (
    "CPX + ENUM",
    "model_checking",
    "bounded exhaustive enumeration of grammars x nonterminals x targets, with deviation-bounded exploration of the helper's random answers; results recomputed independently",
    "(a) create_fixed_length_tree for every nonterminal and target length 0..6 of several hundred generated grammars and the catalogue, "
    "under every answer sequence of its random.choice within a deviation bound: a returned tree must be closed, grammar-valid, rooted in the "
    "nonterminal and have exactly the requested length. (b) the solver's numeric model-value path on five numeral grammars (zero padding, "
    "optional/mandatory signs) for =, >=, <= against positive/negative targets with optimized queries on and off: the integer value of every "
    "solution is recomputed. (c) count() on every closed tree and open prefix of five grammars for every needle and k in 0..4, literal and "
    "variable: Boolean answers on closed trees must equal the recount, proposed replacements must be valid, contain exactly k needles and no "
    "open leaf from which the needle is still reachable.",
    "Not producing a result (None, 'not ready', StopIteration, an exception from solve()) is never judged here; caps are counted.",
    "DESIGN.md section 3, C14",
)

CHECKS["C01"] = (
    "SOLV + CPX",
    "model_checking",
    "bounded exhaustive enumeration of solver instances (grammar x constraint schema x settings) x solve() call prefixes x random-answer deviations; every returned tree re-checked against the reference semantics",
    "For five grammars, one constraint per formula schema of the typed universe (plus the trivial constraint) is solved under the default "
    "settings, and a core of constraints under nine settings (instantiation limits, optimized Z3 queries off, unique trees, insertion methods, "
    "unsat support). solve() is called up to 5 (thorough 8) times and EVERY returned tree is checked: closed, grammar-valid, rooted in "
    "<start>, and satisfying the ORIGINAL constraint under the reference semantics (the solver's own assertion only evaluates the residual "
    "constraint). All random answers are owned by the choice-point explorer: one fixed default schedule for every instance, plus every "
    "single deviation within the first 12 (30) choice points on the core. A sixth grammar (header:word=number) carries eleven nested-SMT "
    "scenarios (an atom over an element and one over a part of it; two-variable atoms that lose a variable by simplification) under four settings and 9 (14) calls.",
    "Reference semantics as in C03. Runs cut by the wall-clock cap, and replays that diverge (Z3 timing), are counted and not judged.",
    "DESIGN.md section 3, C01",
)

CHECKS["C02"] = (
    "SOLV + CPX",
    "model_checking",
    "exhaustive exploration of solve() call sequences against a three-state lifecycle automaton, incl. every placement of the deadline on a virtual clock",
    "(1) every C01 instance: 4 calls plus 3 calls after the first StopIteration/TimeoutError; (2) every operator skeleton of the C05 "
    "alphabet as a solver constraint; (3) eight instances under a virtual clock (isla.solver.time replaced) with the deadline placed at "
    "every clock poll of the run and the clock standing still or advancing afterwards. Oracle: the automaton ACTIVE -> {ACTIVE, EXHAUSTED, "
    "TIMED_OUT} with absorbing sinks; any other exception type escaping solve(), or a different outcome after a sink, is a violation.",
    "Constraints the constructor rejects are outside the domain. A suspected violation that does not reproduce from a clean process is counted, not reported.",
    "DESIGN.md section 3, C02",
)

CHECKS["C15"] = (
    "ENUM",
    "model_checking",
    "bounded exhaustive enumeration of regular expressions of the documented shape against own set semantics of regexes; concatenation lists against bounded language equality",
    "All regexes built by the grammar in numeric_intervals_from_regex's docstring up to nesting depth 2 (thorough 3): singles, ordered "
    "ranges, zero runs, digit runs, 2-3-member unions, the four sequence forms with optional/mandatory signs and zero padding, plus deeply "
    "nested terms that differ only far below the root. The set of matched strings of length <= 5 is enumerated by an independent "
    "set-semantics of regular expressions; returned intervals must contain every matched value (soundness) and, within |n| <= 120, only "
    "integers that have a matched spelling (exactness). compress_concatenation_elements is run on all lists of 1..4 elements over "
    "{r, r*, r+} and the bounded languages before/after must be equal.",
    "Nothing is always accepted. Values: optional sign, zero padding, digits. The documented (-inf, inf) result for bare digit runs is a known finding.",
    "DESIGN.md section 3, C15",
)

CHECKS["C11"] = (
    "ENUM",
    "model_checking",
    "bounded exhaustive enumeration of grammar shapes x terminal strings over an escaping-relevant alphabet; identity or bounded language equality after the BNF round trip",
    "Grammar shapes of the generated one- and two-nonterminal families (empty alternatives included) get their terminal letters replaced "
    "by every string of length 1-2 over 22 characters (quotes, backslash, newline, tab, CR, NUL and other controls, DEL, '<', '>', space, "
    "'|', ':', '=', a non-ASCII letter, and letters/digits that turn a backslash into a literal escape text), plus nine hand-written shortcut "
    "inputs (placeholder text, <langle>/<langle_0> predefined in both orders, '<' adjacent to nonterminals, all control characters, empty "
    "alternatives). parse_bnf(unparse_grammar(g)) must equal g when no terminal contains '<'; otherwise every nonterminal of g must keep "
    "its language (all words up to length 6). Any exception is a violation.",
    "Substitutions that would make terminal text look like a nonterminal are skipped (a dict grammar cannot express them).",
    "DESIGN.md section 3, C11",
)

CHECKS["C17"] = (
    "BFS + ENUM",
    "model_checking",
    "explicit-state breadth-first search over histories of cache computations and serializations on real trees; exhaustive literal alphabet for SMT formula pickling; all universe trees through the CLI JSON reader",
    "(d) CLI pipeline: what `isla parse` prints (stdout as printed / -o file, plain / pretty) is written to a file and read back by `isla parse`. (a) From six seed trees, every history of length <= 3 (thorough 4) over fifteen operations (k-path computations on root and child, "
    "structural hash, hash, is_open, str, paths, trie, len, pickle round trip, to_json, from_json(to_json), deepcopy, pickle of a child) is "
    "replayed on a fresh real tree; after every step ALL observers run again on the original and on any decoded tree and are compared with "
    "the nested-tuple reference. (b) seven SMT atom skeletons x all pairs of 21 string literals (quotes, backslashes incl. trailing, newline, "
    "tab, NUL, Latin-1, BMP, \\u-lookalike text, runs of blanks, blank lines; one skeleton long enough for Z3's printer to wrap) with and without substituted trees: the unpickled formula must equal the original and "
    "print identically. (c) every tree of three grammar universes and open prefixes through derivation_tree_to_json and the CLI's JSON reader.",
    "States are merged only when the set of operations applied, the serialization count and the per-node cache signature agree.",
    "DESIGN.md section 3, C17",
)

CHECKS["C20"] = (
    "ENUM",
    "model_checking",
    "bounded exhaustive enumeration of closed argument trees x numeric arguments for every bundled semantic predicate; verdicts and replacements recomputed independently",
    "count on every closed tree of four grammars and each of its closed subtrees as in_tree, for every needle and 0..5 as literal tree and as "
    "numeric variable; octal_to_decimal on all octal x decimal digit strings up to length 3 in all four argument modes; crop, ljust, rjust, "
    "ljust_crop, rjust_crop and extend_crop on all 341 (thorough 1365) closed trees of a nullable field nonterminal for widths 0..6 given "
    "as tree, int and variable and three fill characters. Boolean answers must equal the recomputed relation; every proposed replacement "
    "must be a closed valid tree of the argument's nonterminal whose string is the str.ljust/rjust/slice result; no call may raise.",
    "Relations as stated in the check's ASSUMPTIONS (count includes the root; crop holds for len <= width).",
    "DESIGN.md section 3, C20",
)

CHECKS["C07"] = (
    "ENUM",
    "model_checking",
    "bounded exhaustive enumeration of constraint texts over a syntax alphabet through parse -> unparse -> parse -> unparse, with differential evaluation on all closed trees",
    "About 1900 constraint texts: one core-syntax formula per schema of the typed universe, every sugared form of the C08 generator, free "
    "nonterminals (incl. <start>) in every argument position, XPath expressions, const declarations, bound names that collide with "
    "generated names, one constraint per SMT operator nest and per string literal class (quotes, backslashes, newline, tab, Latin-1, BMP), "
    "match expressions over a grammar whose terminals need escaping, numeric quantifiers and predicates with string/int arguments, every pair of arithmetic operators in left-/right-nested, flat and infix "
    "form, nested Boolean and regular-expression operators, and every assignment of the names {v, v_0, v_1} to the quantifiers of four formula shapes. For every "
    "accepted text: the unparsed text must parse, the re-parsed constraint must equal the first, the second unparse must reproduce the text, "
    "and both constraints must evaluate identically on every closed tree of the grammar's universe.",
    "Texts the first parse rejects are outside the domain; classes rejected completely are listed in the evidence as coverage gaps.",
    "DESIGN.md section 3, C07",
)

CHECKS["C08"] = (
    "ENUM",
    "model_checking",
    "bounded exhaustive enumeration of (sugared text, hand-expanded core formula) pairs x all closed trees; the core side judged by the reference semantics",
    "About 110 pairs cover every documented sugar rule and combinations: omitted 'in start', omitted variable names, free nonterminals, XPath "
    "child axis over single / several candidate alternatives in universal and existential context, indices 1..12 on a twelve-child rule, "
    "descendant axis, prefix/infix SMT notation with precedence, negative literals, implies/iff/xor with precedence. The core translation "
    "is written from islaspec.rst as an own AST; on every closed tree of six grammars (two are revisions that keep the nonterminal names and add "
    "an alternative) evaluate(sugar) must equal the reference semantics of the core form, and parse_isla must accept the sugar. Further families: an "
    "unnamed quantifier with an XPath next to a free XPath of the same type, explicit names that look like generated ones, and parse histories (all "
    "texts parsed under one grammar, then the pairs of another judged in the same process, six ordered grammar pairs).",
    "Only contexts the specification decides are paired (e.g. the descendant axis below an existentially bound variable is not).",
    "DESIGN.md section 3, C08",
)

CHECKS["C18"] = (
    "ENUM + BFS + CPX",
    "model_checking",
    "bounded exhaustive enumeration of input strings x constraints through check/parse, call histories on one solver object, repair/mutate under owned random answers",
    "For four grammars and a schema-stratified set of constraints, ALL strings up to 3 (thorough 4) terminal tokens plus all yields of the "
    "tree universe are passed to check(str), parse(str) and check(tree): check must equal membership AND the reference semantics of the "
    "parse tree, parse must raise SyntaxError / SemanticError / return a faithful tree accordingly, check(tree) must equal check(str). "
    "Histories of one or two earlier calls on the SAME solver object (parse with a nonterminal, check on strings, trees and trees derived by "
    "replace_path, solve) are followed by probes whose answers are known from a fresh solver. repair/mutate run with all random answers "
    "owned by the explorer: a valid input must come back unchanged, every returned tree must be grammar-valid and satisfy the constraint.",
    "Ambiguous grammar: syntax-level statements only. repair/mutate may return Nothing or hit the wall-clock cap.",
    "DESIGN.md section 3, C18",
)

CHECKS["C19"] = (
    "ENUM",
    "model_checking",
    "exhaustive enumeration of command x grammar source x constraint source x input source x flag combinations against a contract table, plus solve->check and parse->check pipelines",
    "About 3300 command lines: check and parse over the full product of 7 grammar sources (BNF file ok/malformed/empty, --grammar, Python "
    "file with/without a grammar, missing) x 10 constraint sources (file, unsatisfiable, malformed, empty file, -c once, -c twice, file plus "
    "-c, missing) x 12 input sources (file valid / without trailing newline / syntactically invalid / violating / empty, JSON tree, JSON of "
    "an invalid tree, -i string, -i \"\", two inputs, missing); solve, repair and mutate over reduced products. They run in-process through "
    "isla.cli.main with SystemExit caught; twelve representatives also run as real `python -m isla` processes and must agree. Expected exit "
    "codes come from a contract table that uses the reference semantics for the CONJUNCTION of all constraints. Pipelines feed every line, "
    "-d file and --tree file of `isla solve`, and the JSON of `isla parse`, back to `isla check` for two grammars (one whose words end in a newline). "
    "Layouts: for check/parse x 2 grammar files x 2 constraint sources x 4 inputs, every order of the positional files with and without a grammar-less "
    "extension file, and six further input file names containing .py/.bnf/.isla in the middle.",
    "Combinations the contract does not rank accept any applicable code but never a traceback.",
    "DESIGN.md section 3, C19",
)

CHECKS["C21"] = (
    "SOLV",
    "exploration",
    "bounded enumeration of solver configurations (formalization x cost/instantiation settings x random seed x solution prefix), every solution judged by an independent validator",
    "The shipped CSV, XML (prefix grammar, three constraints), simple TAR and reST formalizations are solved under the settings the "
    "repository's own tests use plus variations, for several random seeds, and the first n solutions of every run are validated by code that "
    "shares nothing with ISLa: an own CSV record splitter (equal field counts), xml.etree (well-formedness, prefix binding, attribute "
    "uniqueness), an own TAR header decoder (field widths, NUL padding, checksum recomputed from the raw bytes) and docutils (no warning or "
    "error while rendering). This is a bounded exploration of a slow search, not an exhaustive statement over seeds; the evidence states "
    "the configurations, solutions and caps.",
    "Runs are subject to the solver's own timeout; what the solver raises is C02's business.",
    "DESIGN.md section 3, C21",
)

CHECKS["C22"] = (
    "PROC",
    "exploration",
    "enumeration of configurations (instance x hash seed x random seed) with several fresh interpreter processes each, outputs compared byte-wise; entropy census of unseeded sources",
    "Eight (thorough eleven) solver instances chosen to reach tied queue states with structural predicates, SMT clusters over several tree "
    "variables, tree insertion, count with a numeric variable and plain fuzzing are run in 3 (4) fresh interpreters for each combination of "
    "PYTHONHASHSEED in {0, 4711} (and 1) and random.seed in {0, 1}; the printed solution sequences of one configuration must be identical. "
    "A census run wraps time.*, os.urandom, uuid and random.SystemRandom and reports any call from ISLa code while solving without a timeout.",
    "The 'schedule' here is the set of processes of one configuration; nothing is claimed about other machines or Z3 builds. Runs cut by the solver's own timeout are compared on their common prefix.",
    "DESIGN.md section 3, C22",
)

NOT_YET = "check not built yet in this round (planned in DESIGN.md section 3)"


def build():
    checks = []
    for pid in ALL:
        if pid not in CHECKS:
            continue
        eng, cat, tech, text, note, ref = CHECKS[pid]
        checks.append(
            {
                "property_id": pid,
                "quick_cmd": f"./check {pid} --tier quick",
                "thorough_cmd": f"./check {pid} --tier thorough",
                "evidence_file": f"evidence/{pid}.json",
                "replay_cmd_template": f"./check {pid} --replay {{path}}",
                "engine": eng,
                "level_claimed": {"category": cat, "text": text, "design_ref": ref},
                "level_note": note,
                "technique": tech,
            }
        )
    m = {
        "version": 1,
        "setup_cmd": "/venv/bin/python -c 'import isla, z3; print(isla.__file__)'",
        "hooks": {
            "guard": "ISLA_VERIF",
            "enable": "no source hooks: the harness replaces module attributes (random.*, isla.solver.time, ISLaSolver methods) at run time; "
                      "./check sets ISLA_VERIF=1 and PYTHONPATH=/repo/src so the working tree is what runs",
            "baseline_off_cmd": "cd /repo && /venv/bin/python -m pytest -ra -q -p no:cacheprovider --timeout=900 --continue-on-collection-errors",
            "source_commits": [],
            "add_only": True,
        },
        "engines": [
            {"name": "ENUM", "path": "mc/universe, mc/ref", "serves_properties": [p for p in CHECKS if CHECKS[p][0].startswith("ENUM")],
             "kind_free_text": "bounded-exhaustive input enumeration against executable reference models"},
            {"name": "CPX", "path": "mc/explorer.py", "serves_properties": [p for p in CHECKS if "CPX" in CHECKS[p][0]],
             "kind_free_text": "stateless deviation-bounded exploration of every environment answer (random.*, clock) on the real code"},
            {"name": "BFS", "path": "mc/bfs.py", "serves_properties": [p for p in CHECKS if "BFS" in CHECKS[p][0]],
             "kind_free_text": "explicit-state breadth-first search over operation histories replayed on real objects"},
        ],
        "checks": checks,
        "not_applicable": [{"property_id": p, "reason": NOT_YET} for p in ALL if p not in CHECKS],
        "notes": "All checks: ./check <ID> --tier quick|thorough; known findings in known_findings.json; seeded breaking changes in seeded/ (seeded/RESULTS.md: which check reports which); committed replay files in regressions/ (tests/test_replays.py). The thorough tier uses the same alphabets with larger bounds and starts its chunks in a fixed interleaved order until a wall-clock budget is used up (VERIF_BUDGET_S seconds, default 1500, 0 = none); chunks not started are reported in the evidence as a cap (DESIGN.md 7a).",
    }
    return m


if __name__ == "__main__":
    m = build()
    with open(os.path.join(ROOT, "MANIFEST.json"), "w") as f:
        json.dump(m, f, indent=1)
    try:
        import jsonschema

        jsonschema.validate(m, json.load(open("/root/.vp/MANIFEST.schema.json")))
        print("MANIFEST.json valid,", len(m["checks"]), "checks")
    except ImportError:
        print("written (jsonschema not available here)")
