"""CPX — choice-point explorer (DESIGN 2.3): stateless, deviation-bounded exploration of every
environment answer on the real code.

ISLa takes its entropy from module-level functions of `random` (always called as random.f(...))
and, in solver.py, from `time.time`.  During one execution these attributes are replaced; every
call becomes a choice point (call site, domain size) whose answer comes from a script; answers
beyond the script are the default answer: 0 (first element / smallest value / identity permutation)
or, with default_seed, a fixed pseudo-random schedule (so that default runs terminate like ordinary runs).  explore() runs the body for every script with at most `bound` non-default answers
among the first `horizon` choice points — exactly the iterative-bounding scheme of the brief.
"""
import itertools
import random as _random
import sys

_REAL = {n: getattr(_random, n) for n in ("randrange", "randint", "choice", "choices", "shuffle", "sample", "random")}


class ReplayDivergence(Exception):
    """a scripted answer does not fit the choice point met at that position: harness error, never a verdict"""


def default_answer(seed, i, n):
    """the default answer of choice point i: a fixed pseudo-random schedule (splitmix-style hash of seed and
    position), so that default runs look like ordinary runs and terminate; seed None = always 0"""
    if seed is None or n <= 1:
        return 0
    x = (seed * 0x9E3779B97F4A7C15 + (i + 1) * 0xBF58476D1CE4E5B9) & 0xFFFFFFFFFFFFFFFF
    x ^= x >> 30
    x = (x * 0x94D049BB133111EB) & 0xFFFFFFFFFFFFFFFF
    x ^= x >> 31
    return x % n


class Execution:
    def __init__(self, script, default_seed=None):
        self.script = list(script)
        self.default_seed = default_seed
        self.points = []  # (site, n, answer, is_deviation)

    # ---- the primitive
    def choose(self, n, site=None):
        if n <= 0:
            raise IndexError("choice from an empty domain")
        i = len(self.points)
        dflt = default_answer(self.default_seed, i, n)
        ans = self.script[i] if i < len(self.script) and self.script[i] is not None else dflt
        if ans >= n:
            raise ReplayDivergence(f"scripted answer {ans} at choice point {i} but domain size is {n} ({site})")
        self.points.append((site or _site(), n, ans, ans != dflt))
        return ans

    # ---- replacements for the random module
    def randrange(self, start, stop=None, step=1):
        if stop is None:
            start, stop = 0, start
        n = len(range(start, stop, step))
        return start + step * self.choose(n)

    def randint(self, a, b):
        n = b - a + 1
        if n > 64:
            # opaque huge domain (Z3 reseed, free numeric value): default + two fixed alternates
            opts = [a if a >= 0 else 0, (a if a >= 0 else 0) + 1, b]
            return opts[self.choose(3)]
        return a + self.choose(n)

    def choice(self, seq):
        seq = list(seq) if not hasattr(seq, "__getitem__") else seq
        return seq[self.choose(len(seq))]

    def choices(self, population, weights=None, *, cum_weights=None, k=1):
        population = list(population)
        if weights is None and cum_weights is not None:
            weights = [cum_weights[0]] + [cum_weights[i] - cum_weights[i - 1] for i in range(1, len(cum_weights))]
        idx = [i for i in range(len(population)) if weights is None or weights[i] > 0]
        return [population[idx[self.choose(len(idx))]] for _ in range(k)]

    def shuffle(self, x):
        n = len(x)
        if n <= 1:
            return
        if n <= 4:
            perms = list(itertools.permutations(range(n)))
            p = perms[self.choose(len(perms))]
        else:
            k = self.choose(3)  # identity / reversal / rotation (stated cap for long lists)
            p = [list(range(n)), list(range(n - 1, -1, -1)), list(range(1, n)) + [0]][k]
        items = [x[i] for i in p]
        x[:] = items

    def sample(self, population, k):
        pool = list(population)
        out = []
        for _ in range(k):
            out.append(pool.pop(self.choose(len(pool))))
        return out

    def random(self):
        return [0.0, 0.5, 0.999][self.choose(3)]

    def deviations(self):
        return sum(1 for p in self.points if p[3])


def _site():
    f = sys._getframe(3)
    return f"{f.f_code.co_filename.rsplit('/', 1)[-1]}:{f.f_lineno}"


class patched:
    """context manager installing an Execution as the random module's functions"""

    def __init__(self, ex):
        self.ex = ex

    def __enter__(self):
        for n in _REAL:
            setattr(_random, n, getattr(self.ex, n))
        return self.ex

    def __exit__(self, *a):
        for n, f in _REAL.items():
            setattr(_random, n, f)
        return False


def run(body, script, default_seed=None):
    """one execution of body() under the script; returns (observation, execution)"""
    ex = Execution(script, default_seed)
    with patched(ex):
        obs = body()
    return obs, ex


def explore(body, check, bound, horizon=40, max_execs=None, on_exec=None, default_seed=None):
    """Depth-first over scripts.  body() -> observation (must be deterministic given the answers);
    check(observation, execution) is called for every execution.  Returns dict of measured stats."""
    stats = dict(executions=0, choice_points_max=0, capped=False, deviation_bound=bound, horizon=horizon, outcomes=set())
    stack = [[]]
    while stack:
        prefix = stack.pop()
        if max_execs is not None and stats["executions"] >= max_execs:
            stats["capped"] = True
            break
        obs, ex = run(body, prefix, default_seed)
        stats["executions"] += 1
        stats["choice_points_max"] = max(stats["choice_points_max"], len(ex.points))
        try:
            stats["outcomes"].add(repr(obs)[:200])
        except Exception:  # noqa
            pass
        check(obs, ex)
        if on_exec:
            on_exec(ex)
        used = sum(1 for p in ex.points[: len(prefix)] if p[3])
        if bound is not None and used >= bound:
            continue
        answers = [p[2] for p in ex.points]
        for i in range(len(prefix), min(len(ex.points), horizon)):
            n, dflt = ex.points[i][1], ex.points[i][2]
            for alt in range(n):
                if alt != dflt:
                    stack.append(answers[:i] + [alt])
    return stats
