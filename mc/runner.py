"""Check runner: ./check <ID> --tier quick|thorough [--replay FILE]

A check module (mc/checks/cXX.py) provides

  PROPERTY, LEVEL, RULE (string), ASSUMPTIONS (list of str)
  chunks(tier, seed)  -> list of picklable work units
  run_chunk(chunk)    -> mc.runner.Result
  replay(case)        -> list of violation dicts (possibly empty) for exactly that case
  finalize(agg, tier) -> optional; may add coverage keys or raise Vacuous

Exit codes: 0 property held on everything explored (known findings printed);
1 violation (VIOLATION lines); 2 harness error / vacuous exploration (never a verdict).
"""
import argparse
import math
import collections
import hashlib
import importlib
import json
import multiprocessing as mp
import os
import signal
import sys
import time
import traceback

ROOT = os.path.dirname(os.path.dirname(os.path.abspath(__file__)))


class Vacuous(Exception):
    pass


class CaseTimeout(Exception):
    pass


def _alarm(*_a):
    raise CaseTimeout()


class time_cap:
    """with time_cap(sec): ...   raises CaseTimeout inside the block."""

    def __init__(self, sec):
        self.sec = sec

    def __enter__(self):
        signal.signal(signal.SIGALRM, _alarm)
        # re-fires every 0.5 s after the deadline: an alarm that lands inside a destructor is swallowed by Python
        signal.setitimer(signal.ITIMER_REAL, self.sec, 0.5)

    def __exit__(self, *a):
        signal.setitimer(signal.ITIMER_REAL, 0)
        return False


class Result:
    """What one chunk reports.  Everything is measured, nothing is a constant."""

    def __init__(self, keep_all=False):
        self.keep_all = keep_all  # replays that re-run a family of cases and filter need every case
        self.evals = 0            # implementation calls compared with the reference
        self.states = set()       # digests of distinct canonical cases/states
        self.transitions = 0      # implementation steps taken
        self.viols = []           # dicts: key, what, case, expected, observed
        self._per_key = {}
        self.outcomes = collections.Counter()
        self.caps = collections.Counter()
        self.nontrivial = {}      # schema -> set of verdict classes seen
        self.samples = []
        self.extra = collections.Counter()

    def state(self, *parts):
        self.states.add(hashlib.blake2b(repr(parts).encode(), digest_size=8).digest())

    def verdict(self, schema, v):
        self.nontrivial.setdefault(schema, set()).add(v)

    def viol(self, key, what, case, expected=None, observed=None):
        # every distinct key is kept (first two cases each); nothing is dropped by a global cap
        n = self._per_key.get(key, 0)
        if n < 2 or self.keep_all:
            self._per_key[key] = n + 1
            self.viols.append(dict(key=key, what=what, case=case, expected=expected, observed=observed))
        self.extra["violating_cases"] += 1

    def sample(self, s, limit=3):
        if len(self.samples) < limit:
            self.samples.append(s)


def _reset_isla_state():
    try:
        from isla.derivation_tree import DerivationTree

        DerivationTree.next_id = 10_000_000
    except Exception:
        pass


def _run_chunk(args):
    modname, idx, chunk = args
    mod = importlib.import_module(modname)
    try:
        r = mod.run_chunk(chunk)
        return idx, r, None
    except BaseException:
        return idx, None, traceback.format_exc()


def load_known(prop):
    path = os.path.join(ROOT, "known_findings.json")
    if not os.path.exists(path):
        return {}, {}
    data = json.load(open(path))
    known = {}
    for e in data["findings"]:
        if e["property"] == prop and e["status"] == "known":
            for k in [e["key"]] + list(e.get("keys", [])):
                known[k] = e
    fixed = {e["key"]: e for e in data["findings"] if e["property"] == prop and e["status"] == "fixed"}
    return known, fixed


def write_replay(prop, v):
    d = os.path.join(ROOT, "replays", prop)
    os.makedirs(d, exist_ok=True)
    blob = json.dumps({"property": prop, **v}, sort_keys=True, default=str, indent=1)
    name = hashlib.sha256(blob.encode()).hexdigest()[:12] + ".json"
    path = os.path.join(d, name)
    with open(path, "w") as f:
        f.write(blob)
    return path


def _replay_in_child(modname, case, q):
    try:
        mod = importlib.import_module(modname)
        q.put(("ok", mod.replay(case)))
    except BaseException:
        q.put(("err", traceback.format_exc()))


def confirm(modname, case, timeout=300):
    """Re-run one case from a clean process; returns list of violations or raises."""
    ctx = mp.get_context("fork")
    q = ctx.Queue()
    p = ctx.Process(target=_replay_in_child, args=(modname, case, q))
    p.start()
    try:
        kind, val = q.get(timeout=timeout)
    except Exception:
        p.kill()
        return None
    p.join(10)
    if kind == "err":
        sys.stderr.write(val)
        return None
    return val


def main(argv=None):
    ap = argparse.ArgumentParser()
    ap.add_argument("prop")
    ap.add_argument("--tier", default=os.environ.get("VERIF_TIER", "quick"), choices=["quick", "thorough"])
    ap.add_argument("--replay")
    ap.add_argument("--jobs", type=int, default=int(os.environ.get("VERIF_JOBS", "16")))
    ap.add_argument("--no-evidence", action="store_true")
    a = ap.parse_args(argv)
    prop = a.prop.upper()
    seed = int(os.environ.get("VERIF_SEED", "0") or 0)
    modname = "mc.checks." + prop.lower()

    import logging

    logging.disable(logging.CRITICAL)  # ISLa logs solver dead ends at ERROR level; verdicts come from the oracles only
    import isla  # noqa

    src = os.environ.get("VERIF_REPO_SRC", "/repo/src")
    if not os.path.realpath(isla.__file__).startswith(os.path.realpath(src) + os.sep):
        print(f"HARNESS-ERROR: isla imported from {isla.__file__}, expected under {src}")
        return 2
    mod = importlib.import_module(modname)
    known, fixed = load_known(prop)

    if a.replay:
        data = json.load(open(a.replay))
        vs = mod.replay(data["case"])
        for v in vs:
            if v["key"] in known:
                print(f"KNOWN-FINDING: property={prop} {known[v['key']]['what']}")
            else:
                print(f"VIOLATION property={prop} replay={a.replay}")
                print("  " + v["what"])
        unknown = [v for v in vs if v["key"] not in known]
        if not vs:
            print("replay: no violation")
        return 1 if unknown else 0

    t0 = time.time()
    chunks = mod.chunks(a.tier, seed)
    agg = Result()
    errors = []
    jobs = max(1, min(a.jobs, len(chunks)))
    ctx = mp.get_context("fork")
    work = [(modname, i, c) for i, c in enumerate(chunks)]
    per_child = getattr(mod, "TASKS_PER_CHILD", 8)
    chunk_timeout = getattr(mod, "CHUNK_TIMEOUT", 1500 if a.tier == "quick" else 7200)
    # thorough tier: chunks are started in a fixed interleaved order (golden-ratio stride, so any prefix is spread over all
    # grammars / families) until a wall-clock budget is used up; chunks that were not started are reported as a cap
    budget = float(os.environ.get("VERIF_BUDGET_S", "0" if a.tier == "quick" else "1500") or 0)
    order = list(range(len(work)))
    if a.tier == "thorough" and len(work) > 2:
        n = len(work)
        k = max(1, int(n * 0.6180339887))
        while math.gcd(k, n) != 1:
            k += 1
        order = [(i * k) % n for i in range(n)]
    with ctx.Pool(jobs, maxtasksperchild=per_child) as pool:
        pending = {}
        nxt = 0
        done = 0
        last_progress = time.time()
        while pending or nxt < len(order):
            while len(pending) < jobs and nxt < len(order) and not (budget and time.time() - t0 > budget):
                pending[nxt] = pool.apply_async(_run_chunk, (work[order[nxt]],))
                nxt += 1
            if not pending:
                break
            ready = [i for i, ar in pending.items() if ar.ready()]
            if not ready:
                if time.time() - last_progress > chunk_timeout:
                    # a worker died (e.g. killed for memory) or hangs: never wait forever
                    errors.append((-1, f"no chunk finished within {chunk_timeout}s ({done} of {len(work)} chunks done); pool terminated"))
                    pool.terminate()
                    break
                time.sleep(0.05)
                continue
            last_progress = time.time()
            for i in ready:
                try:
                    idx, r, err = pending.pop(i).get()
                except Exception:  # noqa
                    idx, r, err = order[i], None, traceback.format_exc()
                done += 1
                if err is not None:
                    errors.append((idx, err))
                    continue
                agg.evals += r.evals
                agg.states |= r.states
                agg.transitions += r.transitions
                agg.viols.extend(r.viols)
                agg.outcomes.update(r.outcomes)
                agg.caps.update(r.caps)
                agg.extra.update(r.extra)
                for k_, v in r.nontrivial.items():
                    agg.nontrivial.setdefault(k_, set()).update(v)
                for s_ in r.samples:
                    if len(agg.samples) < 6:
                        agg.samples.append(s_)
        if nxt < len(order):
            agg.caps[f"chunks_not_started_wallclock_budget_{int(budget)}s"] += len(order) - nxt
            agg.extra["chunks_total"] = len(order)
            agg.extra["chunks_run"] = nxt

    status = 0
    if errors:
        status = 2
        for idx, err in errors[:3]:
            print(f"HARNESS-ERROR in chunk {idx}:\n{err}")

    # ---- violations: dedupe by key, confirm from a clean process, match known findings
    by_key = collections.OrderedDict()
    for v in agg.viols:
        by_key.setdefault(v["key"], v)
    reported = 0
    replayed_known = set()
    confirmed = 0
    known_hit = []
    flaky = 0
    for key, v in by_key.items():
        if key in known:
            known_hit.append(key)
            if id(known[key]) not in replayed_known:
                replayed_known.add(id(known[key]))
                write_replay(prop, v)  # one replayable artefact per known finding
            continue
        do_confirm = getattr(mod, "CONFIRM", True) and not os.environ.get("VERIF_NOCONFIRM") and confirmed < 40
        confirmed += 1
        conf = confirm(modname, v["case"]) if do_confirm else [v]
        if conf is None or not any(c["key"] == key for c in conf):
            # DESIGN 2.6: a suspected violation must fail the same way when re-run from a clean process before it is
            # reported; one that does not is counted (evidence: unconfirmed_violations) and not reported
            flaky += 1
            print(f"NOTE: suspected violation {key} did not reproduce from a clean process and is not reported: {v['what'][:160]}")
            continue
        path = write_replay(prop, v)
        reported += 1
        if reported <= 60:
            print(f"VIOLATION property={prop} replay={path}")
            print(f"  key={key}: {v['what']}")
    if reported:
        status = 1
    printed = set()
    for key in known_hit:
        if id(known[key]) in printed:
            continue
        printed.add(id(known[key]))
        n = sum(1 for k2 in known_hit if known[k2] is known[key])
        print(f"KNOWN-FINDING: property={prop} {known[key]['what']} [{known[key]['key']}" + (f"; {n} listed instances reproduced]" if n > 1 else "]"))

    coverage = {
        "evaluations": agg.evals,
        "states": len(agg.states),
        "transitions": agg.transitions,
        "traces_validated_against_impl": agg.evals,
        "distinct_nontrivial": sum(1 for v in agg.nontrivial.values() if len(v) >= 2),
        "schemas": len(agg.nontrivial),
        "rule": getattr(mod, "RULE", ""),
        "samples": agg.samples,
        "outcomes": dict(agg.outcomes.most_common(40)),
        "caps": dict(agg.caps),
        "exhaustive": not agg.caps and not errors,
        "chunks": len(chunks),
        "violating_cases": agg.extra.get("violating_cases", 0),
        "distinct_violation_keys": len(by_key),
        "known_findings_reproduced": sorted(known_hit),
        "unconfirmed_violations": flaky,
        "extra": {k: v for k, v in agg.extra.items() if k != "violating_cases"},
    }
    if hasattr(mod, "finalize"):
        try:
            coverage.update(mod.finalize(agg, a.tier) or {})
        except Vacuous as e:
            print(f"HARNESS-ERROR: vacuous exploration: {e}")
            status = max(status, 2)
    ev = {
        "property_id": prop,
        "tier": a.tier,
        "seed": seed,
        "level": getattr(mod, "LEVEL", "model_checking"),
        "coverage": coverage,
        "assumptions": getattr(mod, "ASSUMPTIONS", []),
        "wall_s": round(time.time() - t0, 2),
        "violations": reported,
    }
    if not a.no_evidence:
        os.makedirs(os.path.join(ROOT, "evidence"), exist_ok=True)
        with open(os.path.join(ROOT, "evidence", f"{prop}.json"), "w") as f:
            json.dump(ev, f, indent=1, sort_keys=True, default=str)
    print(
        f"{prop} tier={a.tier} evals={agg.evals} states={len(agg.states)} transitions={agg.transitions} "
        f"nontrivial={coverage['distinct_nontrivial']}/{coverage['schemas']} viol_keys={len(by_key)} "
        f"known={len(known_hit)} caps={dict(agg.caps)} wall={ev['wall_s']}s exit={status}"
    )
    return status


if __name__ == "__main__":
    sys.exit(main())
