"""Grammar catalogue and generated grammar families (DESIGN 2.1)."""
import itertools

from ..ref import member
from ..ref.reftree import canon

ASSGN = {
    "<start>": ["<stmt>"],
    "<stmt>": ["<assgn> ; <stmt>", "<assgn>"],
    "<assgn>": ["<var> := <rhs>"],
    "<rhs>": ["<var>", "<digit>"],
    "<var>": ["x", "y"],
    "<digit>": ["0", "1"],
}

LIST = {
    "<start>": ["<list>"],
    "<list>": ["<num>", "<num>,<list>"],
    "<num>": ["<d>", "<d><num>"],
    "<d>": ["0", "1", "2"],
}

BLOCK = {
    "<start>": ["<block>"],
    "<block>": ["{<stmts>}"],
    "<stmts>": ["<stmt>", "<stmt><stmts>"],
    "<stmt>": ["<block>", "d<id>", "u<id>"],
    "<id>": ["a", "b"],
}

NULL = {
    "<start>": ["<A>"],
    "<A>": ["<B><C>"],
    "<B>": ["", "b<B>"],
    "<C>": ["c", ""],
}

WIDE = {
    "<start>": ["<row>"],
    "<row>": ["<c>" * 32],
    "<c>": ["x", "y"],
}

# 30 cells with structure below each cell: nested quantifiers whose `in` variable sits at a child index >= 27
WIDE2 = {
    "<start>": ["<row>"],
    "<row>": ["<c>" * 30],
    "<c>": ["<p>"],
    "<p>": ["<k>=<v>"],
    "<k>": ["a", "b"],
    "<v>": ["0", "1"],
}

AMB = {
    "<start>": ["<A>"],
    "<A>": ["<A><A>", "a"],
}

SIGNED = {
    "<start>": ["<int>"],
    "<int>": ["<sign><digits>", "<digits>"],
    "<sign>": ["+", "-"],
    "<digits>": ["<digit>", "<digit><digits>"],
    "<digit>": ["0", "1", "2", "7"],
}

TAGS = {
    "<start>": ["<elem>"],
    "<elem>": ["<<id>><body></<id>>"],
    "<body>": ["", "<elem>", "t"],
    "<id>": ["a", "b"],
}

# header / item with a redundant field: constraints over an element AND over one of its parts (C01 scenarios)
KV = {
    "<start>": ["<hdr>:<item>"],
    "<hdr>": ["<d><d>"],
    "<item>": ["<word>=<num>"],
    "<num>": ["<d><d>"],
    "<word>": ["<l><word>", "<l>"],
    "<l>": ["a", "b"],
    "<d>": ["0", "1", "2"],
}

CATALOGUE = {
    "kv": KV,
    "assgn": ASSGN,
    "list": LIST,
    "block": BLOCK,
    "null": NULL,
    "wide": WIDE,
    "wide2": WIDE2,
    "amb": AMB,
    "signed": SIGNED,
    "tags": TAGS,
}


def cat(name):
    return CATALOGUE[name]


def _alts(symbols, maxlen):
    out = [()]
    for n in range(1, maxlen + 1):
        out.extend(itertools.product(symbols, repeat=n))
    return out


def _to_grammar(rules):
    g = {"<start>": ["<A>"]}
    for nt, alts in rules.items():
        g[nt] = ["".join(a) for a in alts]
    return g


def generated(family):
    """Generated grammar families.  family in {'1nt2', '1nt3', '2nt2'}.

    <start> ::= <A>; nonterminals <A> (and <B>); 1-2 alternatives each; every alternative
    a sequence over {a, b, <A>, <B>} of bounded length or epsilon; kept if well-formed
    (defined, reachable, productive) and without cyclic nullable/unit derivations.
    Adjacent terminals are merged by string concatenation (as a BNF author would write it).
    """
    if family in ("3ntN3", "3ntN4"):
        yield from _nullable_family(3 if family == "3ntN3" else 4)
        return
    if family == "1nt2":
        nts, maxlen = ["<A>"], 2
    elif family == "1nt3":
        nts, maxlen = ["<A>"], 3
    elif family == "2nt2":
        nts, maxlen = ["<A>", "<B>"], 2
    else:
        raise KeyError(family)
    syms = ["a", "b"] + nts
    alts = _alts(syms, maxlen)
    # alternatives sets of size 1..2 (unordered pairs, order as generated)
    choices = [(a,) for a in alts] + list(itertools.combinations(alts, 2))
    seen = set()
    for combo in itertools.product(choices, repeat=len(nts)):
        rules = dict(zip(nts, combo))
        g = _to_grammar(rules)
        key = tuple(sorted((k, tuple(v)) for k, v in g.items()))
        if key in seen:
            continue
        seen.add(key)
        # textual merge can create duplicates of alternatives: skip those
        if any(len(set(v)) != len(v) for v in g.values()):
            continue
        cg = canon(g)
        if not member.well_formed(cg):
            continue
        if member.has_cyclic_unit(cg):
            continue
        yield g


def _nullable_family(alen):
    """Three nonterminals, built around (indirect) nullability: <A> one alternative of 1..alen symbols over
    {<B>, <C>, a, b}; <B> 1-2 alternatives from {eps, <C>, a, b, <C>a, a<C>, <C><C>}; <C> 1-2 alternatives from
    {eps, a, b, a<C>} .  <B> is defined BEFORE <C> (nullability has to propagate against definition order)."""
    syms = ["<B>", "<C>", "a", "b"]
    a_alts = []
    for n in range(1, alen + 1):
        a_alts.extend(itertools.product(syms, repeat=n))
    b_pool = [(), ("<C>",), ("a",), ("b",), ("<C>", "a"), ("a", "<C>"), ("<C>", "<C>")]
    c_pool = [(), ("a",), ("b",), ("a", "<C>")]
    b_choices = [(x,) for x in b_pool] + list(itertools.combinations(b_pool, 2))
    c_choices = [(x,) for x in c_pool] + list(itertools.combinations(c_pool, 2))
    seen = set()
    for a in a_alts:
        for b in b_choices:
            for c in c_choices:
                g = {"<start>": ["<A>"], "<A>": ["".join(a)], "<B>": ["".join(x) for x in b], "<C>": ["".join(x) for x in c]}
                if any(len(set(v)) != len(v) for v in g.values()):
                    continue
                key = tuple((k, tuple(v)) for k, v in g.items())
                if key in seen:
                    continue
                seen.add(key)
                cg = canon(g)
                if not member.well_formed(cg) or member.has_cyclic_unit(cg):
                    continue
                yield g


def digest(objs):
    import hashlib, json

    h = hashlib.sha256()
    n = 0
    for o in objs:
        h.update(json.dumps(o, sort_keys=True, default=str).encode())
        n += 1
    return {"n": n, "sha256": h.hexdigest()[:16]}
