"""Own tree enumerators (not ISLa's fuzzer): all closed derivation trees up to bounds,
and open prefixes obtained by opening antichains of inner nodes."""
import functools
import itertools

from ..ref.reftree import is_nt, paths, size, with_ids, replace


def closed_trees(cg, nt, depth, max_nodes=None, eps_leaf="node"):
    """All closed derivation trees (label, children) of nt with depth <= depth.

    eps_leaf: how an epsilon alternative is encoded: 'node' -> children ((''),()),)
    (what ISLa's fuzzer/parser produce), 'empty' -> children ().
    """
    memo = {}

    def rec(X, d):
        key = (X, d)
        if key in memo:
            return memo[key]
        res = []
        if d > 0:
            for alt in cg[X]:
                if not alt:
                    if eps_leaf == "node":
                        res.append((X, (("", ()),)))
                    else:
                        res.append((X, ()))
                    continue
                opts = []
                ok = True
                for s in alt:
                    if is_nt(s):
                        sub = rec(s, d - 1)
                        if not sub:
                            ok = False
                            break
                        opts.append(sub)
                    else:
                        opts.append([(s, ())])
                if not ok:
                    continue
                for combo in itertools.product(*opts):
                    t = (X, tuple(combo))
                    if max_nodes is None or size(t) <= max_nodes:
                        res.append(t)
        memo[key] = res
        return res

    return list(rec(nt, depth))


def open_at(t, p):
    if not p:
        return (t[0], None) + tuple(t[2:])
    ch = list(t[1])
    ch[p[0]] = open_at(ch[p[0]], p[1:])
    return (t[0], tuple(ch)) + tuple(t[2:])


def open_prefixes(t, max_open=2, include_root=False):
    """All trees obtained from t by opening an antichain of 1..max_open nonterminal nodes
    (ids, if present, are kept).  Yields (prefix, opened_paths)."""
    nodes = [p for p, st in paths(t) if is_nt(st[0]) and (include_root or p)]
    for k in range(1, max_open + 1):
        for combo in itertools.combinations(nodes, k):
            if any(a == b[: len(a)] or b == a[: len(b)] for a, b in itertools.combinations(combo, 2)):
                continue
            r = t
            for p in combo:
                r = open_at(r, p)
            yield r, combo


def partial_trees(cg, nt, depth, max_nodes):
    """All trees of nt in which every nonterminal node is either open or expanded by one alternative,
    expansion depth <= depth, node count <= max_nodes, at least one open leaf (the trivial open node included)."""
    def rec(X, d):
        res = [(X, None)]
        if d == 0:
            return res
        for alt in cg[X]:
            if not alt:
                res.append((X, (("", ()),)))
                continue
            opts = [rec(s, d - 1) if is_nt(s) else [(s, ())] for s in alt]
            for combo in itertools.product(*opts):
                t = (X, tuple(combo))
                if size(t) <= max_nodes:
                    res.append(t)
        return res

    def has_open(t):
        return t[1] is None or any(has_open(c) for c in t[1])

    return [t for t in rec(nt, depth) if has_open(t)]
