"""Typed, size-bounded enumeration of ISLa core formulas (as mc.ref.sem ASTs) for a grammar.

Deterministic.  `universe(cg, profile)` returns a list of formulas; every kind of constructor of
the supported fragment appears: tree quantifiers with/without match expression, `in start` / `in`
a bound variable, numeric quantifiers with count, structural predicates on pairs of bound
variables, SMT atoms (=, str.len, str.to.int comparisons), one negation level, one connective.
"""
import itertools

from ..ref.reftree import is_nt
from ..ref import member


def numeral_nts(cg, maxlen=3):
    """nonterminals all of whose bounded strings are unsigned numerals"""
    lang = member.bounded_lang(cg, maxlen)
    return {nt for nt, ws in lang.items() if ws and all(w.isdigit() and w.isascii() for w in ws)}


def terminals_of(cg, nt, maxlen=3):
    return sorted(member.bounded_lang(cg, maxlen)[nt], key=lambda w: (len(w), w))


def mexprs_for(cg, T, deep=True):
    """match expressions for T: each alternative with >=1 nonterminal, binding 0..2 of them;
    one level deeper by expanding one nonterminal child; an optional tail for alternatives that
    extend another alternative."""
    out = []
    alts = cg[T]

    def elems(alt, binds):
        res = []
        k = 0
        for s in alt:
            if is_nt(s):
                if k in binds:
                    res.append(("b", s, binds[k]))
                else:
                    res.append(("nt", s))
                k += 1
            else:
                res.append(("t", s))
        return tuple(res)

    for alt in alts:
        nts = [s for s in alt if is_nt(s)]
        if not nts:
            continue
        n = len(nts)
        out.append((elems(alt, {}), []))
        for i in range(n):
            out.append((elems(alt, {i: "m1"}), [("m1", nts[i])]))
        for i, j in itertools.combinations(range(n), 2):
            out.append((elems(alt, {i: "m1", j: "m2"}), [("m1", nts[i]), ("m2", nts[j])]))
        if deep:
            # expand the first nonterminal child that has an alternative with a nonterminal
            for i, s in enumerate(alt):
                if not is_nt(s):
                    continue
                for sub in cg[s]:
                    subn = [x for x in sub if is_nt(x)]
                    if not subn or s == T:
                        continue
                    pre = elems(alt[:i], {})
                    post = elems(alt[i + 1:], {})
                    mid = elems(sub, {0: "m1"})
                    out.append((pre + mid + post, [("m1", subn[0])]))
                    break
                else:
                    continue
                break
    # optional: alt2 = alt1 + suffix
    for a1, a2 in itertools.permutations(alts, 2):
        if len(a2) > len(a1) and a2[: len(a1)] == a1 and any(is_nt(s) for s in a1):
            out.append((elems(a1, {0: "m1"}) + (("opt", elems(a2[len(a1):], {})),), [("m1", [s for s in a1 if is_nt(s)][0])]))
    # merge adjacent terminal elements (a BNF author writes them as one text)
    seen = set()
    res = []
    from ..ref.sem import mexpr_expressible

    for m, binds in out:
        if not mexpr_expressible(m):
            continue
        if m not in seen:
            seen.add(m)
            res.append((m, binds))
    return res


BIN_PREDS = ["before", "after", "inside", "direct_child", "same_position", "different_position", "consecutive"]


def atoms(cg, scope, numerals, level_nts, full=True, with_root=False):
    """atoms over the variables in scope: list of (name, type)."""
    out = []
    vs = [(v, t) for v, t in scope if v != "start"]
    for v, t in vs:
        words = terminals_of(cg, t)[:2]
        for w in words:
            out.append(("smt", ["=", ["v", v], ["s", w]]))
        out.append(("smt", ["=", ["str.len", ["v", v]], ["i", 1]]))
        if full:
            out.append(("smt", [">", ["str.len", ["v", v]], ["i", 2]]))
        if t in numerals:
            out.append(("smt", [">=", ["str.to.int", ["v", v]], ["i", 1]]))
            if full:
                out.append(("smt", ["=", ["str.to.int", ["v", v]], ["i", 10]]))
    if with_root:
        # the root (the constant) as a predicate argument
        for v, t in vs[:1]:
            out.append(("pred", "inside", (), v, "start"))
            out.append(("pred", "direct_child", (), v, "start"))
            out.append(("pred", "before", (), "start", v))
            out.append(("pred", "same_position", (), "start", v))
            out.append(("pred", "nth", (1,), v, "start"))
    for (a, ta), (b, tb) in itertools.permutations(vs, 2):
        if a < b:
            out.append(("smt", ["=", ["v", a], ["v", b]]))
            if ta in numerals and tb in numerals and full:
                out.append(("smt", ["<", ["str.to.int", ["v", a]], ["str.to.int", ["v", b]]]))
        for p in BIN_PREDS:
            out.append(("pred", p, (), a, b))
        if full:
            out.append(("pred", "nth", (1,), a, b))
            out.append(("pred", "nth", (2,), a, b))
            for nt in level_nts:
                out.append(("pred", "level", ("GE", nt), a, b))
                out.append(("pred", "level", ("EQ", nt), a, b))
    return out


def count_atoms(cg, scope, needles, numvar=None):
    out = []
    for v, t in scope:
        for nd in needles:
            if numvar:
                out.append(("count", v, nd, ("v", numvar)))
            else:
                for k in ("0", "1", "2"):
                    out.append(("count", v, nd, ("s", k)))
    return out


def universe(cg, profile="std", level_nts=(), needles=None, types=None):
    """profile: 'small' (~150), 'std' (~600-1500), 'big'."""
    numerals = numeral_nts(cg)
    reach = member.reach_rel(cg)
    types = types or [t for t in cg if t != "<start>"]
    needles = needles if needles is not None else types[:3]
    full = profile != "small"
    F = []

    def q(kind, T, var, m, in_var, body):
        return (kind, T, var, m, in_var, body)

    # --- atoms over the constant itself (a tree that arrives by substitution, not through a quantifier)
    words = terminals_of(cg, "<start>", 6)
    lens = sorted({len(w) for w in words})[:3] or [1]
    start_atoms = [("smt", ["=", ["str.len", ["v", "start"]], ["i", n]]) for n in lens]
    start_atoms += [("smt", ["<=", ["str.len", ["v", "start"]], ["i", lens[-1]]])]
    start_atoms += [("smt", ["=", ["v", "start"], ["s", w]]) for w in words[:2]]
    for at_ in start_atoms:
        F.append(at_)
        F.append(("not", at_))
    for T in types[:2]:
        F.append(q("forall", T, "a", None, "start", ("or", start_atoms[0], ("smt", ["=", ["str.len", ["v", "a"]], ["i", 1]]))))
        F.append(q("exists", T, "a", None, "start", ("and", start_atoms[-1], ("smt", ["=", ["str.len", ["v", "a"]], ["i", 1]]))))
    # --- one quantifier, no match expression
    for T in types:
        sc = [("start", "<start>"), ("a", T)]
        ats = atoms(cg, sc, numerals, level_nts, full, with_root=True) + count_atoms(cg, [("a", T)], needles[:2])
        for at_ in ats:
            for kind in ("forall", "exists"):
                F.append(q(kind, T, "a", None, "start", at_))
        for at_ in ats[:3]:
            F.append(q("forall", T, "a", None, "start", ("not", at_)))
            F.append(("not", q("exists", T, "a", None, "start", at_)))
    # --- one quantifier with match expression
    for T in types:
        for m, binds in mexprs_for(cg, T, deep=True):
            sc = [("a", T)] + binds
            ats = atoms(cg, sc, numerals, level_nts, False)
            if not binds:
                ats = ats[:2] + [("true",)]
            for at_ in ats:
                for kind in ("forall", "exists"):
                    F.append(q(kind, T, "a", m, "start", at_))
    # --- two quantifiers (second in start or in the first variable)
    pairs = [(T1, T2) for T1 in types for T2 in types]
    for T1, T2 in pairs:
        sc = [("a", T1), ("b", T2)]
        ats = [x for x in atoms(cg, sc, numerals, level_nts, full) if _mentions(x, "a") and _mentions(x, "b")]
        if not full:
            ats = ats[:6]
        for at_ in ats:
            for k1, k2 in (("forall", "exists"), ("exists", "forall"), ("forall", "forall"), ("exists", "exists")):
                if not full and (k1, k2) in (("exists", "forall"),):
                    continue
                F.append(q(k1, T1, "a", None, "start", q(k2, T2, "b", None, "start", at_)))
            if T2 in reach[T1] or T1 == T2:
                F.append(q("forall", T1, "a", None, "start", q("exists", T2, "b", None, "a", at_)))
                F.append(q("exists", T1, "a", None, "start", q("forall", T2, "b", None, "a", at_)))
    # --- def-use shape: mexpr in both quantifiers + connective
    for T in types:
        ms = [mb for mb in mexprs_for(cg, T, deep=False) if len(mb[1]) == 1]
        for (m1, b1), (m2, b2) in itertools.product(ms[:3], ms[:3]):
            v1, t1 = b1[0]
            v2, t2 = b2[0]
            m2r = tuple(("b", e[1], "n1") if e[0] == "b" else e for e in m2)
            body = ("and", ("pred", "before", (), "b", "a"), ("smt", ["=", ["v", v1], ["v", "n1"]]))
            F.append(q("forall", T, "a", m1, "start", q("exists", T, "b", m2r, "start", body)))
            body2 = ("or", ("pred", "same_position", (), "b", "a"), ("not", ("smt", ["=", ["v", v1], ["v", "n1"]])))
            F.append(q("forall", T, "a", m1, "start", q("forall", T, "b", m2r, "start", body2)))
    # --- connectives between closed one-quantifier formulas
    ones = [f for f in F if f[0] in ("forall", "exists") and f[3] is None and f[5][0] == "smt"]
    step = max(1, len(ones) // (12 if full else 5))
    core = ones[::step][: (12 if full else 5)]
    for f, g in itertools.combinations(core, 2):
        g = rename(g, {"a": "c"})  # one name, one type per formula (ISLa resolves variables by name)
        F.append(("and", f, g))
        F.append(("or", f, ("not", g)))
    # --- (negated) count on the constant, alone and next to a quantifier that forces expansion
    for nd in needles[:2]:
        for kk in ("1", "2", "3"):
            c = ("count", "start", nd, ("s", kk))
            F.append(c)
            F.append(("not", c))
            T0 = types[-1]
            F.append(("and", q("forall", T0, "a", None, "start", ("smt", [">=", ["str.len", ["v", "a"]], ["i", 1]])), ("not", c)))
            F.append(("and", q("forall", T0, "a", None, "start", ("smt", [">=", ["str.len", ["v", "a"]], ["i", 1]])), c))
    # --- numeric quantifiers with count
    for T in types[: (4 if full else 2)]:
        for nd in needles[:2]:
            c_start = ("count", "start", nd, ("v", "n"))
            F.append(("exists_int", "n", c_start))
            F.append(("exists_int", "n", ("and", c_start, ("smt", [">=", ["str.to.int", ["v", "n"]], ["i", 2]]))))
            F.append(("forall_int", "n", ("or", ("not", c_start), ("smt", ["<=", ["str.to.int", ["v", "n"]], ["i", 2]]))))
            F.append(("exists_int", "n", ("and", c_start, q("forall", T, "a", None, "start", ("count", "a", nd, ("v", "n"))))))
            F.append(("forall_int", "n", ("or", ("not", c_start), q("exists", T, "a", None, "start", ("not", ("count", "a", nd, ("v", "n")))))))
    # --- quantifiers whose body does not mention the bound variable: the (possibly empty) domain alone decides
    for T in types:
        others = [U for U in types if U != T][:2]
        bodies = [("false",), ("true",), start_atoms[0], ("not", start_atoms[0])]
        for U in others:
            bodies.append(q("exists", U, "b", None, "start", ("smt", ["=", ["str.len", ["v", "b"]], ["i", 1]])))
            bodies.append(q("forall", U, "b", None, "start", ("smt", ["=", ["str.len", ["v", "b"]], ["i", 1]])))
        for body in bodies[: (8 if full else 5)]:
            F.append(q("forall", T, "a", None, "start", body))
            F.append(q("exists", T, "a", None, "start", body))
        F.append(q("forall", types[0], "c", None, "start", q("forall", T, "a", None, "c", ("false",))))
        F.append(q("exists", types[0], "c", None, "start", q("exists", T, "a", None, "c", ("true",))))
    # --- numeric quantifier around a plain (count-free) tree quantifier
    for T in types[: (3 if full else 1)]:
        inner_f = q("forall", T, "a", None, "start", ("smt", ["=", ["str.len", ["v", "a"]], ["i", 1]]))
        inner_e = q("exists", T, "a", None, "start", ("smt", ["=", ["str.len", ["v", "a"]], ["i", 1]]))
        one = ("smt", ["=", ["str.to.int", ["v", "n"]], ["i", 1]])
        F.append(("exists_int", "n", ("and", one, inner_f)))
        F.append(("exists_int", "n", ("and", one, inner_e)))
        F.append(("forall_int", "n", ("or", ("not", one), inner_f)))
        F.append(("exists_int", "n", ("and", one, q("forall", T, "a", None, "start", ("smt", ["=", ["str.len", ["v", "a"]], ["str.to.int", ["v", "n"]]])))))
    # dedupe, keep order
    seen = set()
    out = []
    for f in F:
        r = repr(f)
        if r not in seen:
            seen.add(r)
            out.append(f)
    return out


def _mentions(at_, v):
    return f"'{v}'" in repr(at_)


def rename(f, m):
    """rename variables (bound and used) according to m"""
    k = f[0]
    r = lambda v: m.get(v, v)
    if k in ("forall", "exists"):
        _, T, var, mx, in_var, body = f
        mx2 = None if mx is None else tuple(("b", e[1], r(e[2])) if e[0] == "b" else e for e in mx)
        return (k, T, r(var), mx2, r(in_var), rename(body, m))
    if k in ("forall_int", "exists_int"):
        return (k, r(f[1]), rename(f[2], m))
    if k in ("not", "and", "or"):
        return (k,) + tuple(rename(g, m) for g in f[1:])
    if k == "smt":
        return ("smt", _ren_sexpr(f[1], m))
    if k == "pred":
        return (k, f[1], f[2], r(f[3]), r(f[4]))
    if k == "count":
        return (k, r(f[1]), f[2], ("v", r(f[3][1])) if f[3][0] == "v" else f[3])
    return f


def _ren_sexpr(e, m):
    if isinstance(e, list):
        if e[0] == "v":
            return ["v", m.get(e[1], e[1])]
        if e[0] in ("s", "i"):
            return e
        return [e[0]] + [_ren_sexpr(a, m) for a in e[1:]]
    return e
