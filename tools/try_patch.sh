#!/bin/bash
# try_patch.sh <patch file> <check id> [tier]: like try_seed.sh but for an arbitrary patch file
P=$1; C=$2; T=${3:-quick}
W=/tmp/wt/tp_$$_$C
git -C /repo worktree add --detach $W >/dev/null 2>&1 || { echo "WORKTREE FAILED"; exit 2; }
(cd $W && git apply -3 "$P" >/dev/null 2>&1) || { echo "$P: PATCH DOES NOT APPLY"; git -C /repo worktree remove --force $W; exit 2; }
cd /verif && VERIF_REPO_SRC=$W/src VERIF_NOCONFIRM=1 VERIF_JOBS=${VERIF_JOBS:-16} ./check $C --tier $T --no-evidence > /tmp/tp_$$.log 2>&1; RC=$?
git -C /repo worktree remove --force $W
echo "$P vs $C/$T: exit=$RC"; grep -m2 -A1 '^VIOLATION' /tmp/tp_$$.log | grep key= | cut -c1-260; rm -f /tmp/tp_$$.log
