#!/bin/bash
# make_regressions.sh: copies the replay files written by the last runs (/verif/replays, not tracked) that behave as
# tests/test_replays.py expects (known findings still fail with their key, everything else passes) into /verif/regressions (tracked)
cd /verif
PYTHONHASHSEED=0 PYTHONPATH=/repo/src:/verif /venv/bin/python - <<'PY'
import glob, importlib, json, os, shutil, signal
ROOT = "/verif"
KNOWN = set()
for e in json.load(open(f"{ROOT}/known_findings.json"))["findings"]:
    if e["status"] == "known":
        for k in [e["key"]] + e.get("keys", []):
            KNOWN.add((e["property"], k))
kept = dropped = 0
class TO(Exception): pass
def h(*a): raise TO()
signal.signal(signal.SIGALRM, h)
for p in sorted(glob.glob(f"{ROOT}/replays/*/*.json")):
    d = json.load(open(p))
    try:
        signal.alarm(120)
        mod = importlib.import_module("mc.checks." + d["property"].lower())
        keys = {v["key"] for v in mod.replay(d["case"])}
        signal.alarm(0)
    except BaseException as e:
        signal.alarm(0)
        dropped += 1
        continue
    ok = (d["key"] in keys) if (d["property"], d["key"]) in KNOWN else not {k for k in keys if (d["property"], k) not in KNOWN}
    if ok:
        dst = p.replace("/replays/", "/regressions/")
        os.makedirs(os.path.dirname(dst), exist_ok=True)
        shutil.copy(p, dst)
        kept += 1
    else:
        dropped += 1
print(f"regressions: kept {kept}, dropped {dropped}")
PY
