#!/bin/bash
# confirm_all.sh c05 c10 ...  : confirm SEED/1 and SEED/2 of each listed worktree (sequentially)
for w in "$@"; do
  for k in 1 2; do
    SD=/tmp/wt/$w/SEED/$k
    [ -f "$SD/patch.diff" ] || continue
    P=$(echo $w | tr a-z A-Z)
    slug=$(head -c 400 "$SD/notes.md" 2>/dev/null | tr -c 'a-zA-Z0-9' ' ' | awk '{print tolower($1"-"$2"-"$3)}')
    ID="$P-$k-$(basename $w)"
    echo "== $w/$k"; NJOBS=10 /verif/tools/confirm_seed.sh /tmp/wt/$w $SD "$P-seed$k" $P 2>&1 | tail -4
  done
done
