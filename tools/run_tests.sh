#!/bin/bash
# run_tests.sh <checkout>  — runs the pinned suite (xdist) in <checkout> against <checkout>/src and
# prints "<k> of 354; now failing: <n>" followed by baseline-passing tests that do not pass now.
WT="${1:-/repo}"
HERE="$(cd "$(dirname "${BASH_SOURCE[0]}")" && pwd)"
OUT=$(mktemp /tmp/junit.XXXXXX.xml)
cd "$WT" || exit 2
PYTHONPATH="$WT/src" PYTHONDONTWRITEBYTECODE=1 timeout 3000 /venv/bin/python -m pytest -q -p no:cacheprovider -p no:randomly \
  --timeout=900 --continue-on-collection-errors -n "${NJOBS:-8}" --junitxml="$OUT" >/dev/null 2>&1
/venv/bin/python - "$OUT" "$HERE/stable_pass.txt" <<'PY'
import sys, xml.etree.ElementTree as ET
passed = set()
for tc in ET.parse(sys.argv[1]).getroot().iter("testcase"):
    if not any(ch.tag in ("failure", "error", "skipped") for ch in tc):
        passed.add(f"{tc.get('classname')}::{tc.get('name')}")
want = [l.strip() for l in open(sys.argv[2]) if l.strip()]
bad = [t for t in want if t not in passed]
print(f"{len(want) - len(bad)} of {len(want)}; now failing: {len(bad)}")
for t in bad:
    print("  FAIL", t)
PY
rm -f "$OUT"
