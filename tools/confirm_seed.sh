#!/bin/bash
# confirm_seed.sh <worktree> <seed-dir> <dest-id> <property>
# Confirms a seeded change in a scratch worktree: demo passes clean, fails patched; full pinned
# suite keeps all baseline-passing tests green with the patch (tests that fail in the parallel run
# are re-run alone, twice, before they count: several solver tests are timing-sensitive under load).
WT="$1"; SD="$2"; ID="$3"; PROP="$4"
cd "$WT" || exit 2
git checkout -q -- src 2>/dev/null
git apply --check "$SD/patch.diff" || { echo "PATCH DOES NOT APPLY"; exit 2; }
PYTHONPATH="$WT/src" timeout 600 /venv/bin/python "$SD/demo.py" >/tmp/demo_clean.$$.log 2>&1; C=$?
git apply "$SD/patch.diff"
PYTHONPATH="$WT/src" timeout 600 /venv/bin/python "$SD/demo.py" >/tmp/demo_patched.$$.log 2>&1; P=$?
SUITE=$(NJOBS=${NJOBS:-8} /verif/tools/run_tests.sh "$WT")
FAILS=$(echo "$SUITE" | grep "FAIL" | awk '{print $2}')
STILL=""
for t in $FAILS; do
  f=$(echo $t | sed 's/^tests\.\([a-z_]*\)\.\(.*\)$/tests\/\1.py::\2/')
  ok=0
  for i in 1 2; do
    if PYTHONPATH="$WT/src" timeout 1200 /venv/bin/python -m pytest -q -p no:cacheprovider -p no:randomly "$f" >/dev/null 2>&1; then ok=1; break; fi
  done
  [ $ok = 1 ] || STILL="$STILL $t"
done
git checkout -q -- src
NF=$(echo $FAILS | wc -w)
echo "demo clean exit=$C patched exit=$P; $(echo "$SUITE" | head -1); failed in parallel run: $NF; still failing alone:${STILL:- none}"
if [ "$C" = 0 ] && [ "$P" != 0 ] && [ -z "$STILL" ] && echo "$SUITE" | head -1 | grep -q "of 354"; then
  D=/verif/seeded/$ID; mkdir -p "$D"
  cp "$SD/patch.diff" "$SD/demo.py" "$D/"; cp "$SD/notes.md" "$D/notes.md" 2>/dev/null
  python3 - "$D" "$PROP" "$C" "$P" "$(echo "$SUITE" | head -1)" "$NF" <<'PY'
import json,sys,os
d,prop,c,p,suite,nf=sys.argv[1:7]
meta={"property":prop,"origin":"independent sub-agent given only the property text and a scratch worktree",
 "confirmed":{"demo_exit_clean":int(c),"demo_exit_patched":int(p),"suite_parallel_run":suite,
   "tests_failing_in_parallel_run_but_passing_alone":int(nf),
   "how":"tools/confirm_seed.sh in a scratch worktree of /repo: demo on clean tree, demo with patch, full pinned suite with patch (xdist); tests failing in the parallel run re-run alone"},
 "needs_to_manifest":"see notes.md","detected_by":None}
json.dump(meta,open(os.path.join(d,'meta.json'),'w'),indent=1)
PY
  echo "KEPT $ID"
else
  echo "REJECTED $ID"
fi
rm -f /tmp/demo_clean.$$.log /tmp/demo_patched.$$.log
