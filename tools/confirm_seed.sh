#!/bin/bash
# confirm_seed.sh <worktree> <seed-dir> <dest-id> <property>
# Confirms a seeded change in a scratch worktree: demo passes clean, fails patched; full
# suite keeps all baseline-passing tests green with the patch. Copies it to /verif/seeded/<dest-id>/.
WT="$1"; SD="$2"; ID="$3"; PROP="$4"
cd "$WT" || exit 2
git checkout -q -- src 2>/dev/null
git apply --check "$SD/patch.diff" || { echo "PATCH DOES NOT APPLY"; exit 2; }
PYTHONPATH="$WT/src" timeout 600 /venv/bin/python "$SD/demo.py" >/tmp/demo_clean.log 2>&1; C=$?
git apply "$SD/patch.diff"
PYTHONPATH="$WT/src" timeout 600 /venv/bin/python "$SD/demo.py" >/tmp/demo_patched.log 2>&1; P=$?
SUITE=$(NJOBS=${NJOBS:-8} /verif/tools/run_tests.sh "$WT")
git checkout -q -- src
echo "demo clean exit=$C patched exit=$P; $SUITE"
if [ "$C" = 0 ] && [ "$P" != 0 ] && echo "$SUITE" | grep -q "354 of 354; now failing: 0"; then
  D=/verif/seeded/$ID; mkdir -p "$D"
  cp "$SD/patch.diff" "$SD/demo.py" "$D/"; cp "$SD/notes.md" "$D/notes.md" 2>/dev/null
  python3 - "$D" "$PROP" "$C" "$P" "$SUITE" <<'PY'
import json,sys,os
d,prop,c,p,suite=sys.argv[1:6]
notes=open(os.path.join(d,'notes.md')).read() if os.path.exists(os.path.join(d,'notes.md')) else ''
meta={"property":prop,"origin":"independent sub-agent given only the property text and a scratch worktree",
 "confirmed":{"demo_exit_clean":int(c),"demo_exit_patched":int(p),"suite":suite.strip().splitlines()[0],
   "how":"tools/confirm_seed.sh in a scratch worktree of /repo: demo on clean tree, demo with patch, full pinned suite with patch (xdist)"},
 "needs_to_manifest":"see notes.md","detected_by":None}
json.dump(meta,open(os.path.join(d,'meta.json'),'w'),indent=1)
PY
  echo "KEPT $ID"
else
  echo "REJECTED $ID"
fi
