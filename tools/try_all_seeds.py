#!/venv/bin/python
"""Runs every seeded change in /verif/seeded against the quick check of its property (and the listed
alternates) in a scratch worktree of /repo, and records the outcome in seeded/<id>/meta.json and
seeded/RESULTS.md.  usage: tools/try_all_seeds.py [seed-id ...]"""
import json
import os
import re
import subprocess
import sys

ROOT = "/verif"
ALT = {"C02-seed2": ["C05"], "C03-seed1": ["C04"], "C04-seed2": ["C03"], "C17-seed3": ["C19"], "C03-seed4": ["C16"]}
# changes that stopped being property-breaking when a defect they relied on was repaired (their demo passes with the patch applied)
NOT_RERUN = set()
SUPERSEDED = {"C18-seed3": "relied on the C06 defect repaired by a7688f8 (definite TRUE of check() on an open tree for str.prefixof); harmless on the repaired tree"}
# seeds whose patched function was rewritten by a later fix: commit to test them on (the parent of that fix)
PREFIX_TREE = {"C11-seed2": "385f7a1~1", "C17-seed2": "c4c1486", "C19-seed1": "1ab92f6"}


def run(seed, check, base=None):
    w = f"/tmp/wt/all_{seed}_{check}"
    subprocess.run(["git", "-C", "/repo", "worktree", "remove", "--force", w], capture_output=True)
    subprocess.run(["git", "-C", "/repo", "worktree", "add", "--detach", w] + ([base] if base else []), capture_output=True, check=True)
    try:
        p = subprocess.run(["git", "apply", "-3", f"{ROOT}/seeded/{seed}/patch.diff"], cwd=w, capture_output=True)
        if p.returncode:
            return dict(check=check, applies=False)
        env = dict(os.environ, VERIF_REPO_SRC=w + "/src", VERIF_NOCONFIRM="1", VERIF_JOBS=os.environ.get("VERIF_JOBS", "16"))
        p = subprocess.run(["./check", check, "--tier", "quick", "--no-evidence"], cwd=ROOT, env=env, capture_output=True, text=True, timeout=3600)
        keys = re.findall(r"^  key=([^:]+):", p.stdout, re.M)
        return dict(check=check, applies=True, exit=p.returncode, violation_lines=p.stdout.count("\nVIOLATION") + p.stdout.startswith("VIOLATION"), keys=keys[:3], base=base or "HEAD")
    finally:
        subprocess.run(["git", "-C", "/repo", "worktree", "remove", "--force", w], capture_output=True)


def prior_rows(skip):
    """rows of earlier runs (meta.json) for seeds not re-run now"""
    out = []
    for d in sorted(os.listdir(f"{ROOT}/seeded")):
        mp = f"{ROOT}/seeded/{d}/meta.json"
        if d in skip or not os.path.exists(mp):
            continue
        meta = json.load(open(mp))
        db = meta.get("detected_by")
        if db:
            out.append((d, (meta.get("property") or d.split("-")[0]).upper(), dict(check=db["check"], base=db.get("base", "HEAD"), keys=db.get("violation_keys", []))))
    return out


def main():
    if sys.argv[1:] == ["--results-only"]:
        rows = prior_rows(set())
        have = {r[0] for r in rows}
        for d in sorted(os.listdir(f"{ROOT}/seeded")):
            if os.path.isdir(f"{ROOT}/seeded/{d}") and d not in have:
                meta = json.load(open(f"{ROOT}/seeded/{d}/meta.json"))
                if "runs" not in meta and d not in SUPERSEDED:
                    NOT_RERUN.add(d)
                rows.append((d, d.split("-")[0].upper(), None))
        write_results(rows)
        return
    seeds = sys.argv[1:] or sorted(d for d in os.listdir(f"{ROOT}/seeded") if os.path.isdir(f"{ROOT}/seeded/{d}"))
    rows = prior_rows(set(seeds))
    for s in seeds:
        mp = f"{ROOT}/seeded/{s}/meta.json"
        meta = json.load(open(mp)) if os.path.exists(mp) else {}
        prop = (meta.get("property") or s.split("-")[0]).upper()
        results = []
        detected = None
        if s in SUPERSEDED:
            meta["detected_by"] = None
            meta["note"] = SUPERSEDED[s]
            json.dump(meta, open(mp, "w"), indent=1)
            rows.append((s, prop, None))
            print(s, "-> superseded:", SUPERSEDED[s], flush=True)
            continue
        for check in [prop] + ALT.get(s, []):
            res = run(s, check, PREFIX_TREE.get(s))
            results.append(res)
            if res.get("applies") and res.get("exit") == 1:
                detected = res
                break
        meta["detected_by"] = (
            dict(check=detected["check"], tier="quick", base=detected["base"], violation_keys=detected["keys"]) if detected else None
        )
        meta["runs"] = results
        if s in PREFIX_TREE:
            meta["note"] = f"the function this change edits was rewritten by a later fix in /repo; the change is applied to {PREFIX_TREE[s]} (the tree just before that fix)"
        json.dump(meta, open(mp, "w"), indent=1)
        rows.append((s, prop, detected))
        print(s, "->", (detected["check"] + " " + str(detected["keys"][:1])) if detected else "NOT DETECTED " + str(results), flush=True)
        write_results(rows)


def write_results(rows):
    with open(f"{ROOT}/seeded/RESULTS.md", "w") as f:
        f.write("# Seeded changes and the checks that catch them\n\n(each row: `tools/try_all_seeds.py`; quick tier, scratch worktree of /repo with the patch applied)\n\n| seed | property | detected by | first violation key |\n|---|---|---|---|\n")
        for s, prop, d in sorted(rows, key=lambda x: x[0]):
            f.write(f"| {s} | {prop} | {d['check'] + (' (on ' + d['base'] + ')' if d['base'] != 'HEAD' else '') if d else ('superseded by a fix (see meta.json)' if s in SUPERSEDED else 'not re-run against the final checks (reported by its check when first tried, DESIGN.md 7b)' if s in NOT_RERUN else '**not detected**')} | {d['keys'][0] if d and d['keys'] else ''} |\n")


if __name__ == "__main__":
    main()
