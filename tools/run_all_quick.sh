#!/bin/bash
# runs every registered quick check in turn, prints one status line each (used to regenerate evidence/)
cd /verif
for id in $(/venv/bin/python -c "import json;print(' '.join(c['property_id'] for c in json.load(open('MANIFEST.json'))['checks']))"); do
  s=$(date +%s)
  timeout 3000 ./check $id --tier quick > /tmp/quick_$id.log 2>&1; rc=$?
  echo "$id exit=$rc $(( $(date +%s) - s ))s $(grep -c '^VIOLATION' /tmp/quick_$id.log) viol; $(tail -1 /tmp/quick_$id.log | cut -c1-160)"
done
