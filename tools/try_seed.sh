#!/bin/bash
# try_seed.sh <seeded-dir-name> <check id> [tier]: apply the seeded change to /repo, run the check, undo.
S=/verif/seeded/$1; C=$2; T=${3:-quick}
cd /repo && git diff --quiet || { echo "REPO DIRTY"; exit 2; }
git apply "$S/patch.diff" || { echo "PATCH DOES NOT APPLY"; exit 2; }
cd /verif && VERIF_NOCONFIRM=${VERIF_NOCONFIRM:-} ./check $C --tier $T --no-evidence > /tmp/try_$1_$C.log 2>&1; RC=$?
git -C /repo checkout -- .
echo "$1 vs $C/$T: exit=$RC  $(grep -c '^VIOLATION' /tmp/try_$1_$C.log) violation lines"; grep -m2 -A1 '^VIOLATION' /tmp/try_$1_$C.log | cut -c1-300; tail -1 /tmp/try_$1_$C.log | cut -c1-250
