#!/bin/bash
# try_seed.sh <seeded-dir-name> <check id> [tier]: run a check against a scratch worktree of /repo with the
# seeded change applied (VERIF_REPO_SRC), then remove the worktree. /repo itself is not touched.
S=/verif/seeded/$1; C=$2; T=${3:-quick}
W=/tmp/wt/try_$1_$C
git -C /repo worktree remove --force $W >/dev/null 2>&1
git -C /repo worktree add --detach $W >/dev/null 2>&1 || { echo "WORKTREE FAILED"; exit 2; }
(cd $W && git apply -3 "$S/patch.diff" >/dev/null 2>&1) || { echo "$1: PATCH DOES NOT APPLY"; git -C /repo worktree remove --force $W; exit 2; }
cd /verif && VERIF_REPO_SRC=$W/src VERIF_NOCONFIRM=${VERIF_NOCONFIRM:-1} VERIF_JOBS=${VERIF_JOBS:-16} ./check $C --tier $T --no-evidence > /tmp/try_$1_$C.log 2>&1; RC=$?
git -C /repo worktree remove --force $W
echo "$1 vs $C/$T: exit=$RC  $(grep -c '^VIOLATION' /tmp/try_$1_$C.log) violation lines"; grep -m2 -A1 '^VIOLATION' /tmp/try_$1_$C.log | cut -c1-300; tail -1 /tmp/try_$1_$C.log | cut -c1-250
