"""Every committed replay file (regressions/) and every replay written by the last runs (replays/) as a plain pytest case (no explorer, no enumeration).

Run with:  cd /verif && PYTHONHASHSEED=0 PYTHONPATH=/repo/src:/verif /venv/bin/python -m pytest -q tests/test_replays.py
A replay of a *known finding* is expected to still fail with its recorded key; a replay whose
finding was fixed (or that belonged to a seeded change) is expected to pass on the unchanged tree.
"""
import glob
import importlib
import json
import os

import pytest

ROOT = os.path.dirname(os.path.dirname(os.path.abspath(__file__)))
KNOWN = set()
for e in json.load(open(os.path.join(ROOT, "known_findings.json")))["findings"]:
    if e["status"] == "known":
        KNOWN.add((e["property"], e["key"]))
        for k in e.get("keys", []):
            KNOWN.add((e["property"], k))

# regressions/: committed replay files (known findings, repaired defects, violations seen under seeded changes);
# replays/: written by the checks at run time (not tracked)
FILES = sorted(glob.glob(os.path.join(ROOT, "regressions", "*", "*.json"))) + sorted(glob.glob(os.path.join(ROOT, "replays", "*", "*.json")))


@pytest.mark.parametrize("path", FILES, ids=[os.path.relpath(p, ROOT) for p in FILES])
def test_replay(path):
    data = json.load(open(path))
    mod = importlib.import_module("mc.checks." + data["property"].lower())
    viols = mod.replay(data["case"])
    keys = {v["key"] for v in viols}
    if (data["property"], data["key"]) in KNOWN:
        assert data["key"] in keys, f"known finding {data['key']} no longer reproduces"
    else:
        unknown = {k for k in keys if (data["property"], k) not in KNOWN}
        assert not unknown, f"replay reports {unknown}"
